#!/bin/sh
# MANIFEST.setup_cmd: build the symbolic engine offline and self-test the solvers.
set -e
cd "$(dirname "$0")"
./engine/build.sh
mkdir -p out evidence
for s in "z3-new -in" "cvc5 --incremental --lang=smt2" ; do
  r=$(printf '(set-logic ALL)\n(declare-const x (_ BitVec 8))\n(push 1)\n(assert (= (bvadd x #x01) #x00))\n(check-sat)\n(pop 1)\n(assert (distinct x x))\n(check-sat)\n' | $s 2>/dev/null | tr '\n' ' ')
  case "$r" in "sat unsat "*) ;; *) echo "solver self-test failed for $s: $r"; exit 1;; esac
done
echo "setup ok"
