package store

import (
	"bytes"
	"fmt"
	"sort"
	"testing"

	"github.com/canopy-network/canopy/lib"
	"github.com/cockroachdb/pebble/v2"
	"github.com/cockroachdb/pebble/v2/vfs"
)

// small-scope sanity probe of obligation V2 (the four iterator strategies) on a real in-memory pebble
func TestZZVersionedIterator(t *testing.T) {
	keys := [][]byte{lib.JoinLenPrefix([]byte("p"), []byte("a")), lib.JoinLenPrefix([]byte("p"), []byte("a\xff")), lib.JoinLenPrefix([]byte("p"), []byte("b"))}
	prefix := lib.JoinLenPrefix([]byte("p"))
	const V = 3
	cells := len(keys) * V
	total := 1
	for i := 0; i < cells; i++ {
		total *= 3
	}
	bad := map[string]int{}
	for layout := 0; layout < total; layout++ {
		db, err := pebble.Open("", &pebble.Options{FS: vfs.NewMem(), FormatMajorVersion: pebble.FormatColumnarBlocks,
			BlockPropertyCollectors: []func() pebble.BlockPropertyCollector{func() pebble.BlockPropertyCollector { return newVersionedPropertyCollector() }}})
		if err != nil {
			t.Fatal(err)
		}
		state := make([]int, cells) // 0 absent, 1 set, 2 tombstone
		x := layout
		batch := db.NewBatch()
		w := NewVersionedStore(nil, batch, 0)
		for c := 0; c < cells; c++ {
			state[c] = x % 3
			x /= 3
			k, v := keys[c/V], uint64(c%V+1)
			switch state[c] {
			case 1:
				_ = w.SetAt(k, []byte(fmt.Sprintf("v%d", v)), v)
			case 2:
				_ = w.DeleteAt(k, v)
			}
		}
		if err := batch.Commit(pebble.NoSync); err != nil {
			t.Fatal(err)
		}
		for qv := uint64(1); qv <= V; qv++ {
			// reference
			type kv struct{ k, v []byte }
			var ref []kv
			for ki, k := range keys {
				for v := int(qv); v >= 1; v-- {
					st := state[ki*V+v-1]
					if st == 1 {
						ref = append(ref, kv{k, []byte(fmt.Sprintf("v%d", v))})
					}
					if st != 0 {
						break
					}
				}
			}
			for _, reverse := range []bool{false, true} {
				want := append([]kv{}, ref...)
				sort.Slice(want, func(i, j int) bool {
					if reverse {
						return bytes.Compare(want[i].k, want[j].k) > 0
					}
					return bytes.Compare(want[i].k, want[j].k) < 0
				})
				for _, seek := range []bool{false, true} {
					rs := NewVersionedStore(db.NewSnapshot(), nil, qv)
					it, e := rs.NewIterator(prefix, reverse, seek)
					if e != nil {
						t.Fatal(e)
					}
					var got []kv
					for ; it.Valid() && len(got) < 10; it.Next() {
						got = append(got, kv{it.Key(), it.Value()})
					}
					it.Close()
					tag := fmt.Sprintf("reverse=%v seek=%v", reverse, seek)
					same := len(got) == len(want)
					sameSet := same
					if same {
						for i := range got {
							if !bytes.Equal(got[i].k, want[i].k) || !bytes.Equal(got[i].v, want[i].v) {
								same = false
							}
						}
						g2 := append([]kv{}, got...)
						sort.Slice(g2, func(i, j int) bool { return bytes.Compare(g2[i].k, g2[j].k) < 0 })
						w2 := append([]kv{}, ref...)
						sort.Slice(w2, func(i, j int) bool { return bytes.Compare(w2[i].k, w2[j].k) < 0 })
						for i := range g2 {
							if !bytes.Equal(g2[i].k, w2[i].k) || !bytes.Equal(g2[i].v, w2[i].v) {
								sameSet = false
							}
						}
					}
					if !sameSet {
						bad["content "+tag]++
						if bad["content "+tag] <= 2 {
							t.Logf("CONTENT %s qv=%d state=%v got=%q want=%q", tag, qv, state, got, want)
						}
					} else if !same {
						bad["order "+tag]++
						if bad["order "+tag] <= 1 {
							t.Logf("ORDER %s qv=%d state=%v got=%q want=%q", tag, qv, state, got, want)
						}
					}
					_ = rs.Close()
				}
			}
		}
		_ = db.Close()
	}
	t.Logf("layouts=%d violations=%v", total, bad)
}
