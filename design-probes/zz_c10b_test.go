package store

import (
	"bytes"
	"sort"
	"testing"

	"github.com/canopy-network/canopy/lib"
)

// small-scope sanity probe of V3/V4: committed base + pending txn ops + nested txn, both directions, vs a map
func TestZZMergedIterator(t *testing.T) {
	keys := [][]byte{lib.JoinLenPrefix([]byte("p"), []byte("a")), lib.JoinLenPrefix([]byte("p"), []byte("b")), lib.JoinLenPrefix([]byte("p"), []byte("c")), lib.JoinLenPrefix([]byte("q"), []byte("a"))}
	prefix := lib.JoinLenPrefix([]byte("p"))
	n := len(keys)
	pow := func(b, e int) int { r := 1; for i := 0; i < e; i++ { r *= b }; return r }
	bad := map[string]int{}
	runs := 0
	for base := 0; base < pow(2, n); base++ {
		for ops1 := 0; ops1 < pow(3, n); ops1++ {
			for ops2 := 0; ops2 < pow(3, n); ops2 += 7 { // thin out the nested level
				st, err := NewStoreInMemory(lib.NewNullLogger())
				if err != nil {
					t.Fatal(err)
				}
				s := st.(*Store)
				model := map[string]string{}
				for i, k := range keys {
					if base>>i&1 == 1 {
						_ = s.Set(k, []byte("base"))
						model[string(k)] = "base"
					}
				}
				if _, err := s.Commit(); err != nil {
					t.Fatal(err)
				}
				apply := func(w lib.RWStoreI, ops int, tag string) {
					for i, k := range keys {
						switch ops % 3 {
						case 1:
							_ = w.Set(k, []byte(tag))
							model[string(k)] = tag
						case 2:
							_ = w.Delete(k)
							delete(model, string(k))
						}
						ops /= 3
						_ = i
					}
				}
				apply(s, ops1, "l1")
				nested := s.NewTxn()
				apply(nested, ops2, "l2")
				for _, rev := range []bool{false, true} {
					var it lib.IteratorI
					var e lib.ErrorI
					if rev {
						it, e = nested.RevIterator(prefix)
					} else {
						it, e = nested.Iterator(prefix)
					}
					if e != nil {
						t.Fatal(e)
					}
					var gotK, gotV []string
					for ; it.Valid() && len(gotK) < 10; it.Next() {
						gotK, gotV = append(gotK, string(it.Key())), append(gotV, string(it.Value()))
					}
					it.Close()
					var wantK []string
					for k := range model {
						if bytes.HasPrefix([]byte(k), prefix) {
							wantK = append(wantK, k)
						}
					}
					sort.Strings(wantK)
					if rev {
						for i, j := 0, len(wantK)-1; i < j; i, j = i+1, j-1 {
							wantK[i], wantK[j] = wantK[j], wantK[i]
						}
					}
					ok := len(gotK) == len(wantK)
					for i := 0; ok && i < len(gotK); i++ {
						ok = gotK[i] == wantK[i] && gotV[i] == model[wantK[i]]
					}
					runs++
					if !ok {
						bad["iter"]++
						if bad["iter"] < 4 {
							t.Logf("rev=%v base=%b ops1=%d ops2=%d got=%q/%q want=%q", rev, base, ops1, ops2, gotK, gotV, wantK)
						}
					}
				}
				for _, k := range keys {
					v, _ := nested.Get(k)
					if string(v) != model[string(k)] {
						bad["get"]++
					}
				}
				nested.Discard()
				s.Close()
			}
		}
	}
	t.Logf("runs=%d violations=%v", runs, bad)
}
