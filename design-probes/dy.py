import sys
W=int(sys.argv[1]); 
# SafeComputeDY with inputs < 2^W, computed in 4W-bit bitvectors (no overflow), property: dy<=y and (x+dx)*(y-dy) >= x*y
B=4*W+12
def bv(n): return f"(_ bv{n} {B})"
print(f"""(set-logic QF_BV)
(declare-const x (_ BitVec {B}))(declare-const y (_ BitVec {B}))(declare-const dx (_ BitVec {B}))
(assert (bvult x {bv(2**W)}))(assert (bvult y {bv(2**W)}))(assert (bvult dx {bv(2**W)}))
(assert (bvugt x {bv(0)}))
(define-fun ain () (_ BitVec {B}) (bvmul dx {bv(990)}))
(define-fun num () (_ BitVec {B}) (bvmul ain y))
(define-fun den () (_ BitVec {B}) (bvadd (bvmul x {bv(1000)}) ain))
(define-fun dy () (_ BitVec {B}) (bvudiv num den))
(assert (not (and (bvule dy y) (bvuge (bvmul (bvadd x dx) (bvsub y dy)) (bvmul x y)))))
(check-sat)""")
