package p2p

import (
	"bytes"
	"io"
	"net"
	"sync"
	"testing"

	"github.com/canopy-network/canopy/lib"
	"github.com/canopy-network/canopy/lib/crypto"
)

// small-scope sanity probe of E1 (framing round trip) and E2 (tamper) on the real code with real crypto
func TestZZFraming(t *testing.T) {
	p1, _ := crypto.NewBLS12381PrivateKey()
	p2, _ := crypto.NewBLS12381PrivateKey()
	mk := func() (*EncryptedConn, *EncryptedConn, net.Conn, net.Conn) {
		c1, c2 := net.Pipe()
		var e1, e2 *EncryptedConn
		var err1, err2 lib.ErrorI
		wg := sync.WaitGroup{}
		wg.Add(1)
		go func() { e1, err1 = NewHandshake(c1, &lib.PeerMeta{ChainId: 1, NetworkId: 1}, p1); wg.Done() }()
		e2, err2 = NewHandshake(c2, &lib.PeerMeta{ChainId: 1, NetworkId: 1}, p2)
		wg.Wait()
		if err1 != nil || err2 != nil {
			t.Fatal(err1, err2)
		}
		return e1, e2, c1, c2
	}
	sizes := []int{0, 1, 3, 1019, 1020, 1021, 1023, 1024, 1025, 2047, 2048, 2049, 3100}
	bufs := []int{1, 7, 1019, 1020, 1023, 1024, 1025, 4096}
	bad := 0
	for _, w1 := range sizes {
		for _, w2 := range sizes {
			for _, rb := range bufs {
				e1, e2, c1, c2 := mk()
				data := make([]byte, w1+w2)
				for i := range data {
					data[i] = byte(i*7 + 3)
				}
				go func() {
					n1, _ := e1.Write(data[:w1])
					n2, _ := e1.Write(data[w1:])
					if n1 != w1 || n2 != w2 {
						t.Errorf("short write %d/%d %d/%d", n1, w1, n2, w2)
					}
					c1.Close()
				}()
				var got []byte
				buf := make([]byte, rb)
				for len(got) < len(data) {
					n, err := e2.Read(buf)
					got = append(got, buf[:n]...)
					if err != nil {
						break
					}
				}
				if !bytes.Equal(got, data) {
					bad++
					if bad < 5 {
						t.Logf("MISMATCH w1=%d w2=%d rb=%d got=%d want=%d", w1, w2, rb, len(got), len(data))
					}
				}
				c2.Close()
			}
		}
	}
	t.Logf("round-trip mismatches: %d of %d", bad, len(sizes)*len(sizes)*len(bufs))
	// tamper: flip one bit of the 2nd frame on the wire
	c1, c2 := net.Pipe()
	m1, m2 := net.Pipe()
	go func() { // man in the middle that corrupts the second encrypted frame after the handshake
		go io.Copy(c2, m1)
		buf := make([]byte, 1<<16)
		frames, pending := 0, []byte{}
		_ = frames
		total := 0
		for {
			n, err := c2.Read(buf)
			if n > 0 {
				b := append([]byte{}, buf[:n]...)
				_ = pending
				total += n
				if total > 4000 && len(b) > 10 { // well past the handshake: corrupt
					b[5] ^= 1
				}
				m1.Write(b)
			}
			if err != nil {
				return
			}
		}
	}()
	var e1, e2 *EncryptedConn
	wg := sync.WaitGroup{}
	wg.Add(1)
	go func() { e1, _ = NewHandshake(c1, &lib.PeerMeta{ChainId: 1, NetworkId: 1}, p1); wg.Done() }()
	e2, _ = NewHandshake(m2, &lib.PeerMeta{ChainId: 1, NetworkId: 1}, p2)
	wg.Wait()
	if e1 == nil || e2 == nil {
		t.Log("handshake through relay failed (skip tamper part)")
		return
	}
	go func() {
		for i := 0; i < 8; i++ {
			e1.Write(bytes.Repeat([]byte{byte(i)}, 1000))
		}
	}()
	delivered := 0
	buf := make([]byte, 4096)
	for {
		n, err := e2.Read(buf)
		delivered += n
		if err != nil {
			t.Logf("tamper: read error after %d clean bytes: %v", delivered, err)
			break
		}
		if delivered >= 8000 {
			t.Logf("tamper: all 8000 bytes delivered WITHOUT error")
			break
		}
	}
}
