package bft

import (
	"testing"

	"github.com/canopy-network/canopy/lib"
	"github.com/stretchr/testify/require"
)

func TestZZPacemakerSingleByzantine(t *testing.T) {
	c := newTestConsensus(t, Propose, 4)
	t.Logf("total=%d maj23=%d", c.bft.ValidatorSet.TotalPower, c.bft.ValidatorSet.MinimumMaj23)
	// one validator (1/4 of the power) claims an absurd round
	m := &Message{Qc: &lib.QuorumCertificate{Header: c.view(RoundInterrupt, 1_000_000)}}
	require.NoError(t, m.Sign(c.valKeys[3]))
	require.NoError(t, c.bft.HandleMessage(m))
	c.bft.Pacemaker()
	t.Logf("round after pacemaker with one byzantine vote: %d; propose wait = %s", c.bft.Round, c.bft.WaitTime(Propose, c.bft.Round))
}
