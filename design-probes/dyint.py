import sys
W=int(sys.argv[1]); M=2**W
print(f"""(set-logic QF_NIA)
(declare-const x Int)(declare-const y Int)(declare-const dx Int)(declare-const dy Int)(declare-const r Int)
(assert (and (< 0 x) (< x {M}) (<= 0 y) (< y {M}) (<= 0 dx) (< dx {M})))
(define-fun ain () Int (* dx 990))
(define-fun num () Int (* ain y))
(define-fun den () Int (+ (* x 1000) ain))
(assert (= num (+ (* dy den) r)))(assert (<= 0 r))(assert (< r den))(assert (<= 0 dy))
(assert (not (and (<= dy y) (>= (* (+ x dx) (- y dy)) (* x y)))))
(check-sat)""")
