package store

import (
	"bytes"
	"testing"
)

// exhaustive small-scope sanity probe of the obligations K1 will hand to the solver
func TestZZKeyCodec(t *testing.T) {
	bit := func(v uint32, n, i int) int { return int(v>>(n-1-i)) & 1 }
	type enc struct {
		n int
		v uint32
		b []byte
	}
	var all []enc
	bad := map[string]int{}
	for n := 1; n <= 12; n++ {
		for v := uint32(0); v < 1<<n; v++ {
			// left-aligned data bytes
			data := make([]byte, 2)
			w := v << (16 - n)
			data[0], data[1] = byte(w>>8), byte(w)
			k := newNodeKey(bytes.Clone(data), n)
			fresh := new(key).fromBytes(bytes.Clone(k.bytes()))
			if fresh.totalBits() != n {
				bad["totalBits"]++
			}
			for i := 0; i < n; i++ {
				if fresh.bitAt(i) != bit(v, n, i) {
					bad["bitAt"]++
					break
				}
			}
			// addBit construction
			g := &key{}
			for i := 0; i < n; i++ {
				g.addBit(bit(v, n, i))
			}
			if !bytes.Equal(g.bytes(), k.bytes()) {
				bad["addBit!=newNodeKey"]++
				if bad["addBit!=newNodeKey"] < 4 {
					t.Logf("n=%d v=%b addBit=%v newNodeKey=%v", n, v, g.bytes(), k.bytes())
				}
			}
			all = append(all, enc{n, v, bytes.Clone(k.bytes())})
		}
	}
	seen := map[string]enc{}
	for _, e := range all {
		if o, ok := seen[string(e.b)]; ok {
			bad["collision"]++
			if bad["collision"] < 4 {
				t.Logf("collision: (%d,%b) and (%d,%b) -> %v", o.n, o.v, e.n, e.v, e.b)
			}
		}
		seen[string(e.b)] = e
	}
	// cmp on equal-length keys (the Commit sort) and gcp
	for n := 1; n <= 9; n++ {
		for a := uint32(0); a < 1<<n; a++ {
			for b := uint32(0); b < 1<<n; b++ {
				mk := func(v uint32) *key {
					w := v << (16 - n)
					return newNodeKey([]byte{byte(w >> 8), byte(w)}, n)
				}
				c := mk(a).cmp(mk(b))
				want := 0
				if a < b {
					want = -1
				} else if a > b {
					want = 1
				}
				if c != want {
					bad["cmp"]++
				}
				g, pos := &key{}, 0
				mk(a).greatestCommonPrefix(&pos, g, mk(b))
				l := 0
				for l < n && bit(a, n, l) == bit(b, n, l) {
					l++
				}
				if pos != l {
					bad["gcp.pos"]++
				}
			}
		}
	}
	t.Logf("violations: %v", bad)
}
