package store

import (
	"testing"
	"github.com/canopy-network/canopy/lib"
)

func TestZZVerifyProofShortKey(t *testing.T) {
	defer func() { t.Logf("recovered: %v", recover()) }()
	ms, _ := NewStoreInMemory(lib.NewDefaultLogger())
	smt := NewDefaultSMT(ms)
	ok, err := smt.VerifyProof([]byte("k"), []byte("v"), true, []byte("root"), []*lib.Node{{Key: []byte{0}, Value: []byte{1}}, {Key: []byte{0}, Value: []byte{2}}})
	t.Logf("ok=%v err=%v", ok, err)
}

// honest proof for key A offered as non-membership evidence for present key B
func TestZZForeignProof(t *testing.T) {
	ms, _ := NewStoreInMemory(lib.NewDefaultLogger())
	smt := NewDefaultSMT(ms)
	keys := [][]byte{}
	for i := 0; i < 40; i++ {
		keys = append(keys, []byte{byte('a' + i)})
	}
	ops := map[uint64]valueOp{}
	for i, k := range keys {
		ops[uint64(i)] = valueOp{key: k, value: []byte("v"), op: opSet}
	}
	if err := smt.Commit(ops); err != nil {
		t.Fatal(err)
	}
	root := smt.Root()
	bad := 0
	for _, a := range keys {
		proof, err := smt.GetMerkleProof(a)
		if err != nil {
			t.Fatal(err)
		}
		okA, _ := smt.VerifyProof(a, []byte("v"), true, root, proof)
		if !okA {
			t.Fatalf("honest proof for %s rejected", a)
		}
		for _, b := range keys {
			if string(a) == string(b) {
				continue
			}
			func() {
				defer func() { recover() }()
				ok, _ := smt.VerifyProof(b, nil, false, root, proof)
				if ok {
					bad++
				}
			}()
		}
	}
	t.Logf("non-membership of a PRESENT key accepted in %d (A,B) pairs out of %d", bad, len(keys)*(len(keys)-1))
}
