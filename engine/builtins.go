package main

import (
	"fmt"
	"go/types"

	"golang.org/x/tools/go/ssa"
)

func (in *Interp) callBuiltin(b *ssa.Builtin, args []Value, site ssa.Instruction) Value {
	switch b.Name() {
	case "len":
		switch x := args[0].(type) {
		case *SliceV:
			if x.box != nil {
				return in.boxLen(x.box)
			}
			return x.n
		case *StringV:
			return x.lenTerm()
		case *MapObj:
			if x == nil {
				return goInt(0)
			}
			return goInt(len(x.entries))
		case *ArrayV:
			return goInt(len(x.e))
		case *Pointer: // *array
			at := b.Type().(*types.Signature).Params().At(0).Type().Underlying().(*types.Pointer).Elem().Underlying().(*types.Array)
			return goInt(int(at.Len()))
		case *ChanObj:
			if x == nil {
				return goInt(0)
			}
			return goInt(len(x.buf))
		case *PoisonV:
			in.unsupported("len of poison: " + x.why)
		}
		panic(fmt.Sprintf("len of %T", args[0]))
	case "cap":
		switch x := args[0].(type) {
		case *SliceV:
			if x.box != nil {
				return in.boxLen(x.box)
			}
			return goInt(x.cap)
		case *ArrayV:
			return goInt(len(x.e))
		case *ChanObj:
			if x == nil {
				return goInt(0)
			}
			return goInt(x.cap)
		case *Pointer:
			at := b.Type().(*types.Signature).Params().At(0).Type().Underlying().(*types.Pointer).Elem().Underlying().(*types.Array)
			return goInt(int(at.Len()))
		}
		panic(fmt.Sprintf("cap of %T", args[0]))
	case "append":
		return in.appendBuiltin(b, args)
	case "copy":
		return in.copyBuiltin(args)
	case "delete":
		m, _ := args[0].(*MapObj)
		in.mapDelete(m, args[1])
		return nil
	case "print", "println":
		return nil
	case "recover":
		return in.recoverBuiltin()
	case "min", "max":
		res := args[0]
		t := b.Type().(*types.Signature).Params().At(0).Type()
		for _, a := range args[1:] {
			var less *Term
			if b.Name() == "min" {
				less = in.binop(tokLSS, t, a, res, t).(*Term)
			} else {
				less = in.binop(tokLSS, t, res, a, t).(*Term)
			}
			m, ok := in.mergeVal(less, a, res)
			if !ok {
				in.unsupported("min/max merge")
			}
			res = m
		}
		return res
	case "clear":
		switch x := args[0].(type) {
		case *MapObj:
			if x != nil {
				x.entries = nil
			}
		case *SliceV:
			et := b.Type().(*types.Signature).Params().At(0).Type().Underlying().(*types.Slice).Elem()
			for i := range in.sliceElems(x) {
				in.store(x.base.extend(x.off+i), in.zero(et))
			}
		}
		return nil
	case "close":
		return nil
	case "ssa:wrapnilchk":
		if p, ok := args[0].(*Pointer); ok && p == nil {
			in.goPanic("value method called using nil pointer")
		}
		return args[0]
	case "ssa:deferstack":
		return in.curFrame.defers
	}
	in.unsupported("builtin " + b.Name())
	return nil
}

func (in *Interp) recoverBuiltin() Value {
	// recover() is effective only when called directly by a deferred function
	fr := in.curFrame
	if len(in.deferCtx) == 0 {
		return &IfaceV{}
	}
	owner := in.deferCtx[len(in.deferCtx)-1]
	if fr == nil || fr.caller != owner {
		return &IfaceV{}
	}
	if owner.panicking == nil || owner.recovered {
		return &IfaceV{}
	}
	owner.recovered = true
	in.events = append(in.events, "recovered: "+owner.panicking.msg)
	if iv, ok := owner.panicking.val.(*IfaceV); ok {
		return iv
	}
	return &IfaceV{T: types.Typ[types.String], V: mkString(owner.panicking.msg)}
}

func (in *Interp) appendBuiltin(b *ssa.Builtin, args []Value) Value {
	s := args[0].(*SliceV)
	if s.box != nil {
		in.unsupported("append to opaque marshalled message")
	}
	var add []Value
	var et types.Type
	if st, ok := b.Type().(*types.Signature).Params().At(0).Type().Underlying().(*types.Slice); ok {
		et = st.Elem()
	}
	switch y := args[1].(type) {
	case *SliceV:
		if y.box != nil {
			in.unsupported("append of opaque marshalled message (" + y.box.tag + ")")
		}
		for _, e := range in.sliceElems(y) {
			add = append(add, copyVal(e))
		}
	case *StringV:
		n := in.strLenConcrete(y)
		for _, t := range y.b[:n] {
			add = append(add, t)
		}
	default:
		panic(fmt.Sprintf("append of %T", args[1]))
	}
	if len(add) == 0 {
		return s
	}
	n := in.sliceLenConcrete(s)
	if s.base != nil && n+len(add) <= s.cap {
		for i, e := range add {
			in.store(s.base.extend(s.off+n+i), e)
		}
		return &SliceV{base: s.base, off: s.off, n: goInt(n + len(add)), cap: s.cap}
	}
	ncap := 2 * s.cap
	if ncap < n+len(add) {
		ncap = n + len(add)
	}
	if ncap > in.run.cfg.MaxConcreteAlloc {
		in.abort("bound", "append grows beyond MaxConcreteAlloc")
	}
	arr := &ArrayV{e: make([]Value, ncap)}
	old := in.sliceElems(s)
	for i := 0; i < n; i++ {
		arr.e[i] = copyVal(old[i])
	}
	for i, e := range add {
		arr.e[n+i] = e
	}
	if ncap > n+len(add) {
		if et == nil {
			ncap = n + len(add)
			arr.e = arr.e[:ncap]
		} else {
			z := in.zero(et)
			for i := n + len(add); i < ncap; i++ {
				arr.e[i] = copyVal(z)
			}
		}
	}
	o := in.newObject(nil, arr, "append")
	return &SliceV{base: &Pointer{obj: o}, off: 0, n: goInt(n + len(add)), cap: ncap}
}

func (in *Interp) copyBuiltin(args []Value) Value {
	dst := args[0].(*SliceV)
	if dst.box != nil {
		in.unsupported("copy into opaque message")
	}
	var src []Value
	switch y := args[1].(type) {
	case *SliceV:
		if y.box != nil {
			in.unsupported("copy from opaque marshalled message (" + y.box.tag + ")")
		}
		src = in.sliceElems(y)
	case *StringV:
		n := in.strLenConcrete(y)
		for _, t := range y.b[:n] {
			src = append(src, t)
		}
	}
	dn := in.sliceLenConcrete(dst)
	n := dn
	if len(src) < n {
		n = len(src)
	}
	// snapshot first (overlapping copies)
	tmp := make([]Value, n)
	for i := 0; i < n; i++ {
		tmp[i] = copyVal(src[i])
	}
	for i := 0; i < n; i++ {
		in.store(dst.base.extend(dst.off+i), tmp[i])
	}
	return goInt(n)
}
