package main

import (
	"fmt"
	"go/types"
	"math/big"
	"strings"

	"golang.org/x/tools/go/ssa"
)

// Value is one of:
//   *Term     scalar (bool, integer of any width, in BV or Int encoding)
//   *StructV  struct value (value semantics, deep-copied on load/store)
//   *ArrayV   array value
//   *Pointer  (nil pointer = (*Pointer)(nil))
//   *SliceV   (nil slice = base==nil && box==nil)
//   *StringV
//   *MapObj   reference (nil map = (*MapObj)(nil))
//   *IfaceV   (nil interface: T == nil)
//   *FuncV    (nil func: Fn == nil && Builtin == nil && Native == nil)
//   TupleV
//   *ChanObj
//   *PoisonV  result of something the engine could not execute during package init
//   *RangeIter
type Value interface{}

type Object struct {
	id   int
	v    Value
	typ  types.Type
	name string
}

type Pointer struct {
	obj  *Object
	path []int
}

type StructV struct{ f []Value }
type ArrayV struct{ e []Value }

// SliceV: window [off, off+len) into the array base points at (concrete capacity). len may be symbolic,
// bounded by cap-off. A box slice carries an opaque marshalled message instead of bytes.
type SliceV struct {
	base *Pointer // points at an array value (root object or nested field); nil for nil slice / box
	off int
	n   *Term // length, Go type int (BV64 const or symbolic / Int)
	cap int   // capacity counted from off
	box *Box
}

type Box struct {
	id   int
	val  Value      // deep copy of the marshalled message (a *StructV) or any value
	typ  types.Type // the named message type (not pointer)
	lenT *Term
	tag  string
	alt  int // 0 = the canonical (deterministic) encoding; k > 0 = the k-th other byte string that decodes to the same message
}

type StringV struct {
	b []*Term // bytes (BV8)
	n *Term   // nil => len(b); otherwise symbolic length <= len(b)
}

type mapEntry struct {
	k, v Value
	live *Term // nil => present
}
type MapObj struct {
	id      int
	entries []*mapEntry
	typ     *types.Map
}

type IfaceV struct {
	T types.Type
	V Value
}

type FuncV struct {
	Fn      *ssa.Function
	Env     []Value
	Builtin *ssa.Builtin
	Native  func(in *Interp, args []Value) Value
	name    string
}

type TupleV []Value

type ChanObj struct {
	id  int
	buf []Value
	cap int
}

type PoisonV struct{ why string }

type RangeIter struct {
	// map iteration snapshot or string iteration
	keys, vals []Value
	str        *StringV
	i          int
}

func (p *Pointer) String() string {
	if p == nil {
		return "nil"
	}
	return fmt.Sprintf("&obj%d%v", p.obj.id, p.path)
}

func mkString(s string) *StringV {
	b := make([]*Term, len(s))
	for i := 0; i < len(s); i++ {
		b[i] = BVConstU(8, uint64(s[i]))
	}
	return &StringV{b: b}
}

func (s *StringV) concrete() (string, bool) {
	if s.n != nil && !s.n.IsConst() {
		return "", false
	}
	n := len(s.b)
	if s.n != nil {
		n = int(s.n.c.Int64())
	}
	var sb strings.Builder
	for i := 0; i < n; i++ {
		if !s.b[i].IsConst() {
			return "", false
		}
		sb.WriteByte(byte(s.b[i].c.Uint64()))
	}
	return sb.String(), true
}

func copyVal(v Value) Value {
	switch x := v.(type) {
	case *StructV:
		n := &StructV{f: make([]Value, len(x.f))}
		for i, f := range x.f {
			n.f[i] = copyVal(f)
		}
		return n
	case *ArrayV:
		n := &ArrayV{e: make([]Value, len(x.e))}
		for i, f := range x.e {
			n.e[i] = copyVal(f)
		}
		return n
	case TupleV:
		n := make(TupleV, len(x))
		for i, f := range x {
			n[i] = copyVal(f)
		}
		return n
	}
	return v
}

// ---- int kinds ----

type intInfo struct {
	w      int
	signed bool
}

func basicInfo(t types.Type) (intInfo, bool) {
	b, ok := t.Underlying().(*types.Basic)
	if !ok {
		return intInfo{}, false
	}
	switch b.Kind() {
	case types.Int8:
		return intInfo{8, true}, true
	case types.Int16:
		return intInfo{16, true}, true
	case types.Int32, types.UntypedRune:
		return intInfo{32, true}, true
	case types.Int64, types.Int, types.UntypedInt:
		return intInfo{64, true}, true
	case types.Uint8:
		return intInfo{8, false}, true
	case types.Uint16:
		return intInfo{16, false}, true
	case types.Uint32:
		return intInfo{32, false}, true
	case types.Uint64, types.Uint, types.Uintptr:
		return intInfo{64, false}, true
	}
	return intInfo{}, false
}

func isBool(t types.Type) bool {
	b, ok := t.Underlying().(*types.Basic)
	return ok && b.Info()&types.IsBoolean != 0
}
func isString(t types.Type) bool {
	b, ok := t.Underlying().(*types.Basic)
	return ok && b.Info()&types.IsString != 0
}
func isFloat(t types.Type) bool {
	b, ok := t.Underlying().(*types.Basic)
	return ok && b.Info()&(types.IsFloat|types.IsComplex) != 0
}

func intConstOf(t types.Type, v *big.Int) *Term {
	ii, ok := basicInfo(t)
	if !ok {
		panic("intConstOf: not an integer type: " + t.String())
	}
	return mkConst(BV(ii.w), v)
}

func goInt(v int) *Term { return BVConst(64, int64(v)) }

// zero value of a type
func (in *Interp) zero(t types.Type) Value {
	switch u := t.Underlying().(type) {
	case *types.Basic:
		if u.Info()&types.IsBoolean != 0 {
			return False
		}
		if u.Info()&types.IsString != 0 {
			return &StringV{}
		}
		if ii, ok := basicInfo(t); ok {
			return BVConst(ii.w, 0)
		}
		if u.Kind() == types.UnsafePointer {
			return (*Pointer)(nil)
		}
		if u.Kind() == types.UntypedNil {
			return (*Pointer)(nil)
		}
		if isFloat(t) {
			return &PoisonV{"float"}
		}
		panic("zero: basic " + t.String())
	case *types.Struct:
		s := &StructV{f: make([]Value, u.NumFields())}
		for i := 0; i < u.NumFields(); i++ {
			s.f[i] = in.zero(u.Field(i).Type())
		}
		return s
	case *types.Array:
		n := int(u.Len())
		a := &ArrayV{e: make([]Value, n)}
		if n > 0 {
			z := in.zero(u.Elem())
			a.e[0] = z
			for i := 1; i < n; i++ {
				a.e[i] = copyVal(z)
			}
		}
		return a
	case *types.Pointer:
		return (*Pointer)(nil)
	case *types.Slice:
		return &SliceV{n: goInt(0)}
	case *types.Map:
		return (*MapObj)(nil)
	case *types.Interface:
		return &IfaceV{}
	case *types.Signature:
		return &FuncV{}
	case *types.Chan:
		return (*ChanObj)(nil)
	case *types.Tuple:
		tv := make(TupleV, u.Len())
		for i := range tv {
			tv[i] = in.zero(u.At(i).Type())
		}
		return tv
	case *types.TypeParam:
		panic("zero: type param")
	}
	panic("zero: " + t.String())
}

func (in *Interp) newObject(t types.Type, v Value, name string) *Object {
	in.nextObj++
	return &Object{id: in.nextObj, v: v, typ: t, name: name}
}

// ---- navigation ----

func (in *Interp) load(p *Pointer) Value {
	if p == nil {
		in.goPanic("nil pointer dereference")
	}
	v := p.obj.v
	for _, i := range p.path {
		switch x := v.(type) {
		case *StructV:
			v = x.f[i]
		case *ArrayV:
			if i >= len(x.e) {
				in.goPanic("index out of range (array)")
			}
			v = x.e[i]
		case *PoisonV:
			return x
		default:
			panic(fmt.Sprintf("load: bad path through %T", v))
		}
	}
	return copyVal(v)
}

func (in *Interp) store(p *Pointer, nv Value) {
	if p == nil {
		in.goPanic("nil pointer dereference (store)")
	}
	nv = copyVal(nv)
	if len(p.path) == 0 {
		p.obj.v = nv
		return
	}
	v := p.obj.v
	for k, i := range p.path {
		last := k == len(p.path)-1
		switch x := v.(type) {
		case *StructV:
			if last {
				x.f[i] = nv
				return
			}
			v = x.f[i]
		case *ArrayV:
			if i >= len(x.e) {
				in.goPanic("index out of range (array store)")
			}
			if last {
				x.e[i] = nv
				return
			}
			v = x.e[i]
		case *PoisonV:
			return
		default:
			panic(fmt.Sprintf("store: bad path through %T", v))
		}
	}
}

func (p *Pointer) extend(i int) *Pointer {
	np := &Pointer{obj: p.obj, path: make([]int, len(p.path)+1)}
	copy(np.path, p.path)
	np.path[len(p.path)] = i
	return np
}

func samePointer(a, b *Pointer) bool {
	if a == nil || b == nil {
		return a == nil && b == nil
	}
	if a.obj != b.obj || len(a.path) != len(b.path) {
		return false
	}
	for i := range a.path {
		if a.path[i] != b.path[i] {
			return false
		}
	}
	return true
}

// typeKey gives a canonical string for dynamic type comparison.
func typeKey(t types.Type) string { return types.TypeString(t, nil) }

func describe(v Value) string {
	switch x := v.(type) {
	case nil:
		return "<nil>"
	case *Term:
		return x.String()
	case *StructV:
		var parts []string
		for _, f := range x.f {
			parts = append(parts, describe(f))
		}
		return "{" + strings.Join(parts, " ") + "}"
	case *ArrayV:
		if len(x.e) > 8 {
			return fmt.Sprintf("[%d]...", len(x.e))
		}
		var parts []string
		for _, f := range x.e {
			parts = append(parts, describe(f))
		}
		return "[" + strings.Join(parts, " ") + "]"
	case *Pointer:
		return x.String()
	case *SliceV:
		if x.box != nil {
			return fmt.Sprintf("box#%d(%s)", x.box.id, x.box.tag)
		}
		if x.base == nil {
			return "[]nil"
		}
		return fmt.Sprintf("slice(%s+%d len=%s cap=%d)", x.base, x.off, x.n, x.cap)
	case *StringV:
		if s, ok := x.concrete(); ok {
			return fmt.Sprintf("%q", s)
		}
		return fmt.Sprintf("string(sym,%d)", len(x.b))
	case *MapObj:
		if x == nil {
			return "map(nil)"
		}
		return fmt.Sprintf("map#%d(%d)", x.id, len(x.entries))
	case *IfaceV:
		if x.T == nil {
			return "iface(nil)"
		}
		return "iface(" + typeKey(x.T) + ":" + describe(x.V) + ")"
	case *FuncV:
		if x.Fn != nil {
			return "func " + x.Fn.String()
		}
		return "func?"
	case TupleV:
		var parts []string
		for _, f := range x {
			parts = append(parts, describe(f))
		}
		return "(" + strings.Join(parts, ", ") + ")"
	case *PoisonV:
		return "poison(" + x.why + ")"
	}
	return fmt.Sprintf("%T", v)
}
