package main

// SMT term DAG with hash-consing and constant folding.
//
// Sorts: Bool, BitVec(w), Int. A Go integer value is carried either as a bit-vector term of its
// exact width (exact wrap-around semantics for free) or - "int mode" - as a mathematical Int term
// that is kept inside the Go type's range by explicit wrap terms emitted by ops.go.

import (
	"fmt"
	"math/big"
	"sort"
	"strconv"
	"strings"
	"sync"
)

type SortKind uint8

const (
	SBool SortKind = iota
	SBV
	SInt
)

type Sort struct {
	K SortKind
	W int
}

func (s Sort) String() string {
	switch s.K {
	case SBool:
		return "Bool"
	case SBV:
		return fmt.Sprintf("(_ BitVec %d)", s.W)
	}
	return "Int"
}

var (
	BoolSort = Sort{SBool, 0}
	IntSort  = Sort{SInt, 0}
)

func BV(w int) Sort { return Sort{SBV, w} }

type Term struct {
	id   int
	op   string // "const", "var", or SMT operator (possibly indexed, e.g. "(_ extract 7 0)")
	args []*Term
	sort Sort
	c    *big.Int // constant value (bool: 0/1; bv: unsigned value; int: value)
	name string   // var name
}

type termTable struct {
	mu    sync.Mutex
	byKey map[string]*Term
	all   []*Term
}

var TT = &termTable{byKey: map[string]*Term{}}

func (tt *termTable) intern(key string, mk func() *Term) *Term {
	tt.mu.Lock()
	defer tt.mu.Unlock()
	if t, ok := tt.byKey[key]; ok {
		return t
	}
	t := mk()
	t.id = len(tt.all)
	tt.all = append(tt.all, t)
	tt.byKey[key] = t
	return t
}

func (t *Term) IsConst() bool { return t.op == "const" }
func (t *Term) Sort() Sort    { return t.sort }

var bigOne = big.NewInt(1)

func pow2(w int) *big.Int { return new(big.Int).Lsh(bigOne, uint(w)) }

func mask(v *big.Int, w int) *big.Int {
	m := new(big.Int).Sub(pow2(w), bigOne)
	r := new(big.Int).And(v, m)
	if v.Sign() < 0 {
		r = new(big.Int).Mod(v, pow2(w))
	}
	return r
}

// signedVal interprets a w-bit unsigned value as two's complement.
func signedVal(v *big.Int, w int) *big.Int {
	if v.Bit(w-1) == 1 {
		return new(big.Int).Sub(v, pow2(w))
	}
	return new(big.Int).Set(v)
}

// small constants are looked up without formatting or locking (they dominate concrete execution)
type smallKey struct {
	k SortKind
	w int
	v int64
}

var smallConsts sync.Map // smallKey -> *Term

func mkConst(s Sort, v *big.Int) *Term {
	if v.IsInt64() {
		iv := v.Int64()
		if iv >= 0 && (s.K != SBV || s.W >= 63 || iv < int64(1)<<uint(s.W)) {
			sk := smallKey{s.K, s.W, iv}
			if t, ok := smallConsts.Load(sk); ok {
				return t.(*Term)
			}
			key := "c|" + strconv.Itoa(int(s.K)) + "|" + strconv.Itoa(s.W) + "|" + strconv.FormatInt(iv, 10)
			t := TT.intern(key, func() *Term { return &Term{op: "const", sort: s, c: new(big.Int).Set(v)} })
			smallConsts.Store(sk, t)
			return t
		}
	}
	if s.K == SBV {
		v = mask(v, s.W)
	}
	key := "c|" + strconv.Itoa(int(s.K)) + "|" + strconv.Itoa(s.W) + "|" + v.String()
	return TT.intern(key, func() *Term { return &Term{op: "const", sort: s, c: new(big.Int).Set(v)} })
}

var (
	True  = mkConst(BoolSort, big.NewInt(1))
	False = mkConst(BoolSort, big.NewInt(0))
)

func BoolConst(b bool) *Term {
	if b {
		return True
	}
	return False
}
func BVConst(w int, v int64) *Term      { return mkConst(BV(w), big.NewInt(v)) }
func BVConstU(w int, v uint64) *Term    { return mkConst(BV(w), new(big.Int).SetUint64(v)) }
func BVConstBig(w int, v *big.Int) *Term { return mkConst(BV(w), v) }
func IntConst(v int64) *Term            { return mkConst(IntSort, big.NewInt(v)) }
func IntConstBig(v *big.Int) *Term      { return mkConst(IntSort, v) }

func Var(name string, s Sort) *Term {
	key := fmt.Sprintf("v|%d|%d|%s", s.K, s.W, name)
	return TT.intern(key, func() *Term { return &Term{op: "var", sort: s, name: name} })
}

func mkApp(op string, s Sort, args ...*Term) *Term {
	var sb strings.Builder
	sb.WriteString("a|")
	sb.WriteString(op)
	for _, a := range args {
		fmt.Fprintf(&sb, "|%d", a.id)
	}
	return TT.intern(sb.String(), func() *Term { return &Term{op: op, sort: s, args: append([]*Term(nil), args...)} })
}

func allConst(args ...*Term) bool {
	for _, a := range args {
		if !a.IsConst() {
			return false
		}
	}
	return true
}

// ---------- boolean ----------

func Not(a *Term) *Term {
	if a.IsConst() {
		return BoolConst(a.c.Sign() == 0)
	}
	if a.op == "not" {
		return a.args[0]
	}
	return mkApp("not", BoolSort, a)
}

func And(xs ...*Term) *Term {
	var out []*Term
	seen := map[int]bool{}
	for _, x := range xs {
		if x.IsConst() {
			if x.c.Sign() == 0 {
				return False
			}
			continue
		}
		if x.op == "and" {
			for _, y := range x.args {
				if !seen[y.id] {
					seen[y.id] = true
					out = append(out, y)
				}
			}
			continue
		}
		if !seen[x.id] {
			seen[x.id] = true
			out = append(out, x)
		}
	}
	for _, x := range out {
		if x.op == "not" && seen[x.args[0].id] {
			return False
		}
	}
	if len(out) == 0 {
		return True
	}
	if len(out) == 1 {
		return out[0]
	}
	return mkApp("and", BoolSort, out...)
}

func Or(xs ...*Term) *Term {
	var out []*Term
	seen := map[int]bool{}
	for _, x := range xs {
		if x.IsConst() {
			if x.c.Sign() != 0 {
				return True
			}
			continue
		}
		if x.op == "or" {
			for _, y := range x.args {
				if !seen[y.id] {
					seen[y.id] = true
					out = append(out, y)
				}
			}
			continue
		}
		if !seen[x.id] {
			seen[x.id] = true
			out = append(out, x)
		}
	}
	for _, x := range out {
		if x.op == "not" && seen[x.args[0].id] {
			return True
		}
	}
	if len(out) == 0 {
		return False
	}
	if len(out) == 1 {
		return out[0]
	}
	return mkApp("or", BoolSort, out...)
}

func Implies(a, b *Term) *Term { return Or(Not(a), b) }

func Ite(c, a, b *Term) *Term {
	if c.IsConst() {
		if c.c.Sign() != 0 {
			return a
		}
		return b
	}
	if a == b {
		return a
	}
	if a.sort != b.sort {
		panic(fmt.Sprintf("ite sort mismatch %v %v", a.sort, b.sort))
	}
	if a.sort.K == SBool {
		if a.IsConst() && b.IsConst() {
			if a.c.Sign() != 0 {
				return c
			}
			return Not(c)
		}
		if a.IsConst() {
			if a.c.Sign() != 0 {
				return Or(c, b)
			}
			return And(Not(c), b)
		}
		if b.IsConst() {
			if b.c.Sign() != 0 {
				return Or(Not(c), a)
			}
			return And(c, a)
		}
	}
	if c.op == "not" {
		return Ite(c.args[0], b, a)
	}
	return mkApp("ite", a.sort, c, a, b)
}

func Eq(a, b *Term) *Term {
	if a == b {
		return True
	}
	if a.sort != b.sort {
		// a bit-vector value meeting an Int-encoded one (e.g. a byte produced from an Int-encoded
		// amount): compare as integers; narrow values are unsigned, 64-bit ones are Go ints
		if a.sort.K == SBV && b.sort.K == SInt {
			return Eq(bvAsInt(a), b)
		}
		if a.sort.K == SInt && b.sort.K == SBV {
			return Eq(a, bvAsInt(b))
		}
		panic(fmt.Sprintf("eq sort mismatch %v %v (%s / %s)", a.sort, b.sort, a.String(), b.String()))
	}
	if a.IsConst() && b.IsConst() {
		return BoolConst(a.c.Cmp(b.c) == 0)
	}
	if a.sort.K == SBool {
		if a.IsConst() {
			if a.c.Sign() != 0 {
				return b
			}
			return Not(b)
		}
		if b.IsConst() {
			if b.c.Sign() != 0 {
				return a
			}
			return Not(a)
		}
	}
	// eq(ite(c,k1,k2), k) with constants folds
	if b.IsConst() && a.op == "ite" && a.args[1].IsConst() && a.args[2].IsConst() {
		return Ite(a.args[0], Eq(a.args[1], b), Eq(a.args[2], b))
	}
	if a.IsConst() && b.op == "ite" && b.args[1].IsConst() && b.args[2].IsConst() {
		return Ite(b.args[0], Eq(b.args[1], a), Eq(b.args[2], a))
	}
	// zero_extend(x) == const
	if b.IsConst() && strings.HasPrefix(a.op, "(_ zero_extend") {
		iw := a.args[0].sort.W
		if b.c.BitLen() > iw {
			return False
		}
		return Eq(a.args[0], BVConstBig(iw, b.c))
	}
	if a.IsConst() && strings.HasPrefix(b.op, "(_ zero_extend") {
		return Eq(b, a)
	}
	if a.id > b.id {
		a, b = b, a
	}
	return mkApp("=", BoolSort, a, b)
}

func bvAsInt(t *Term) *Term {
	w := t.sort.W
	if t.IsConst() {
		if w == 64 {
			return IntConstBig(signedVal(t.c, 64))
		}
		return IntConstBig(t.c)
	}
	n := BV2Nat(t)
	if w == 64 {
		return Ite(IGe(n, IntConstBig(pow2(63))), ISub(n, IntConstBig(pow2(64))), n)
	}
	return n
}

// ---------- bit-vectors ----------

func bvBin(op string, a, b *Term) *Term {
	if a.sort != b.sort || a.sort.K != SBV {
		panic(fmt.Sprintf("%s sort mismatch %v %v", op, a.sort, b.sort))
	}
	w := a.sort.W
	if a.IsConst() && b.IsConst() {
		x, y := a.c, b.c
		r := new(big.Int)
		switch op {
		case "bvadd":
			r.Add(x, y)
		case "bvsub":
			r.Sub(x, y)
		case "bvmul":
			r.Mul(x, y)
		case "bvand":
			r.And(x, y)
		case "bvor":
			r.Or(x, y)
		case "bvxor":
			r.Xor(x, y)
		case "bvudiv":
			if y.Sign() == 0 {
				r.Sub(pow2(w), bigOne)
			} else {
				r.Div(x, y)
			}
		case "bvurem":
			if y.Sign() == 0 {
				r.Set(x)
			} else {
				r.Mod(x, y)
			}
		case "bvsdiv":
			sx, sy := signedVal(x, w), signedVal(y, w)
			if sy.Sign() == 0 {
				if sx.Sign() < 0 {
					r.SetInt64(1)
				} else {
					r.SetInt64(-1)
				}
			} else {
				r.Quo(sx, sy)
			}
		case "bvsrem":
			sx, sy := signedVal(x, w), signedVal(y, w)
			if sy.Sign() == 0 {
				r.Set(sx)
			} else {
				r.Rem(sx, sy)
			}
		case "bvshl":
			if y.Cmp(big.NewInt(int64(w))) >= 0 {
				r.SetInt64(0)
			} else {
				r.Lsh(x, uint(y.Int64()))
			}
		case "bvlshr":
			if y.Cmp(big.NewInt(int64(w))) >= 0 {
				r.SetInt64(0)
			} else {
				r.Rsh(x, uint(y.Int64()))
			}
		case "bvashr":
			sx := signedVal(x, w)
			sh := uint(w)
			if y.Cmp(big.NewInt(int64(w))) < 0 {
				sh = uint(y.Int64())
			}
			r.Rsh(sx, sh)
		default:
			panic("bvBin fold: " + op)
		}
		return mkConst(a.sort, r)
	}
	// identities
	isZero := func(t *Term) bool { return t.IsConst() && t.c.Sign() == 0 }
	isOnes := func(t *Term) bool { return t.IsConst() && t.c.Cmp(new(big.Int).Sub(pow2(w), bigOne)) == 0 }
	switch op {
	case "bvadd", "bvor", "bvxor":
		if isZero(a) {
			return b
		}
		if isZero(b) {
			return a
		}
		if op == "bvor" && (isOnes(a) || isOnes(b)) {
			return mkConst(a.sort, new(big.Int).Sub(pow2(w), bigOne))
		}
	case "bvsub", "bvshl", "bvlshr", "bvashr":
		if isZero(b) {
			return a
		}
		if op != "bvsub" && isZero(a) {
			return a
		}
		if op == "bvsub" && a == b {
			return mkConst(a.sort, new(big.Int))
		}
		// shifts of an extended narrower value by a constant: keep as is (solver handles)
	case "bvmul":
		if isZero(a) || isZero(b) {
			return mkConst(a.sort, new(big.Int))
		}
		if a.IsConst() && a.c.Cmp(bigOne) == 0 {
			return b
		}
		if b.IsConst() && b.c.Cmp(bigOne) == 0 {
			return a
		}
	case "bvand":
		if isZero(a) || isZero(b) {
			return mkConst(a.sort, new(big.Int))
		}
		if isOnes(a) {
			return b
		}
		if isOnes(b) {
			return a
		}
		if a == b {
			return a
		}
	case "bvudiv":
		if b.IsConst() && b.c.Cmp(bigOne) == 0 {
			return a
		}
	}
	if op == "bvadd" || op == "bvmul" || op == "bvand" || op == "bvor" || op == "bvxor" {
		if a.id > b.id {
			a, b = b, a
		}
	}
	return mkApp(op, a.sort, a, b)
}

func BVAdd(a, b *Term) *Term  { return bvBin("bvadd", a, b) }
func BVSub(a, b *Term) *Term  { return bvBin("bvsub", a, b) }
func BVMul(a, b *Term) *Term  { return bvBin("bvmul", a, b) }
func BVAnd(a, b *Term) *Term  { return bvBin("bvand", a, b) }
func BVOr(a, b *Term) *Term   { return bvBin("bvor", a, b) }
func BVXor(a, b *Term) *Term  { return bvBin("bvxor", a, b) }
func BVUDiv(a, b *Term) *Term { return bvBin("bvudiv", a, b) }
func BVURem(a, b *Term) *Term { return bvBin("bvurem", a, b) }
func BVSDiv(a, b *Term) *Term { return bvBin("bvsdiv", a, b) }
func BVSRem(a, b *Term) *Term { return bvBin("bvsrem", a, b) }
func BVShl(a, b *Term) *Term  { return bvBin("bvshl", a, b) }
func BVLshr(a, b *Term) *Term { return bvBin("bvlshr", a, b) }
func BVAshr(a, b *Term) *Term { return bvBin("bvashr", a, b) }

func BVNot(a *Term) *Term {
	if a.IsConst() {
		return mkConst(a.sort, new(big.Int).Xor(a.c, new(big.Int).Sub(pow2(a.sort.W), bigOne)))
	}
	if a.op == "bvnot" {
		return a.args[0]
	}
	return mkApp("bvnot", a.sort, a)
}

func BVNeg(a *Term) *Term {
	if a.IsConst() {
		return mkConst(a.sort, new(big.Int).Neg(a.c))
	}
	return mkApp("bvneg", a.sort, a)
}

func bvCmp(op string, a, b *Term) *Term {
	if a.sort != b.sort || a.sort.K != SBV {
		panic(fmt.Sprintf("%s sort mismatch %v %v", op, a.sort, b.sort))
	}
	w := a.sort.W
	if a.IsConst() && b.IsConst() {
		var c int
		if op[2] == 's' {
			c = signedVal(a.c, w).Cmp(signedVal(b.c, w))
		} else {
			c = a.c.Cmp(b.c)
		}
		switch op[3:] {
		case "lt":
			return BoolConst(c < 0)
		case "le":
			return BoolConst(c <= 0)
		case "gt":
			return BoolConst(c > 0)
		case "ge":
			return BoolConst(c >= 0)
		}
	}
	if a == b {
		return BoolConst(op[3:] == "le" || op[3:] == "ge")
	}
	if op[2] == 'u' {
		zero := func(t *Term) bool { return t.IsConst() && t.c.Sign() == 0 }
		switch op {
		case "bvult":
			if zero(b) {
				return False
			}
		case "bvuge":
			if zero(b) {
				return True
			}
		case "bvugt":
			if zero(a) {
				return False
			}
		case "bvule":
			if zero(a) {
				return True
			}
		}
		// zero_extend(x) cmp const beyond x's range
		if strings.HasPrefix(a.op, "(_ zero_extend") && b.IsConst() {
			iw := a.args[0].sort.W
			if b.c.BitLen() > iw {
				switch op {
				case "bvult", "bvule":
					return True
				default:
					return False
				}
			}
			return bvCmp(op, a.args[0], BVConstBig(iw, b.c))
		}
		if strings.HasPrefix(b.op, "(_ zero_extend") && a.IsConst() {
			iw := b.args[0].sort.W
			if a.c.BitLen() > iw {
				switch op {
				case "bvugt", "bvuge":
					return True
				default:
					return False
				}
			}
			return bvCmp(op, BVConstBig(iw, a.c), b.args[0])
		}
	}
	return mkApp(op, BoolSort, a, b)
}

func BVUlt(a, b *Term) *Term { return bvCmp("bvult", a, b) }
func BVUle(a, b *Term) *Term { return bvCmp("bvule", a, b) }
func BVUgt(a, b *Term) *Term { return bvCmp("bvugt", a, b) }
func BVUge(a, b *Term) *Term { return bvCmp("bvuge", a, b) }
func BVSlt(a, b *Term) *Term { return bvCmp("bvslt", a, b) }
func BVSle(a, b *Term) *Term { return bvCmp("bvsle", a, b) }
func BVSgt(a, b *Term) *Term { return bvCmp("bvsgt", a, b) }
func BVSge(a, b *Term) *Term { return bvCmp("bvsge", a, b) }

func ZeroExt(a *Term, w int) *Term {
	if a.sort.W == w {
		return a
	}
	if a.sort.W > w {
		return Extract(a, w-1, 0)
	}
	if a.IsConst() {
		return mkConst(BV(w), a.c)
	}
	if strings.HasPrefix(a.op, "(_ zero_extend") {
		return ZeroExt(a.args[0], w)
	}
	return mkApp(fmt.Sprintf("(_ zero_extend %d)", w-a.sort.W), BV(w), a)
}

func SignExt(a *Term, w int) *Term {
	if a.sort.W == w {
		return a
	}
	if a.sort.W > w {
		return Extract(a, w-1, 0)
	}
	if a.IsConst() {
		return mkConst(BV(w), signedVal(a.c, a.sort.W))
	}
	return mkApp(fmt.Sprintf("(_ sign_extend %d)", w-a.sort.W), BV(w), a)
}

func Extract(a *Term, hi, lo int) *Term {
	if lo == 0 && hi == a.sort.W-1 {
		return a
	}
	if a.IsConst() {
		return mkConst(BV(hi-lo+1), new(big.Int).Rsh(a.c, uint(lo)))
	}
	if lo == 0 && (strings.HasPrefix(a.op, "(_ zero_extend") || strings.HasPrefix(a.op, "(_ sign_extend")) {
		iw := a.args[0].sort.W
		if hi+1 == iw {
			return a.args[0]
		}
		if hi+1 < iw {
			return Extract(a.args[0], hi, 0)
		}
		if strings.HasPrefix(a.op, "(_ zero_extend") {
			return ZeroExt(a.args[0], hi+1)
		}
		return SignExt(a.args[0], hi+1)
	}
	return mkApp(fmt.Sprintf("(_ extract %d %d)", hi, lo), BV(hi-lo+1), a)
}

// ---------- integers ----------

func intFold(op string, args []*Term) *Term {
	r := new(big.Int).Set(args[0].c)
	for _, a := range args[1:] {
		switch op {
		case "+":
			r.Add(r, a.c)
		case "-":
			r.Sub(r, a.c)
		case "*":
			r.Mul(r, a.c)
		case "div":
			if a.c.Sign() == 0 {
				return nil
			}
			// SMT-LIB div: floor for positive divisor, Euclidean in general
			m := new(big.Int)
			r.DivMod(r, a.c, m)
		case "mod":
			if a.c.Sign() == 0 {
				return nil
			}
			r.Mod(r, new(big.Int).Abs(a.c))
		}
	}
	return IntConstBig(r)
}

func intBin(op string, a, b *Term) *Term {
	if a.sort.K != SInt || b.sort.K != SInt {
		panic(fmt.Sprintf("int op %s on %v %v", op, a.sort, b.sort))
	}
	if a.IsConst() && b.IsConst() {
		if r := intFold(op, []*Term{a, b}); r != nil {
			return r
		}
	}
	zero := func(t *Term) bool { return t.IsConst() && t.c.Sign() == 0 }
	one := func(t *Term) bool { return t.IsConst() && t.c.Cmp(bigOne) == 0 }
	switch op {
	case "+":
		if zero(a) {
			return b
		}
		if zero(b) {
			return a
		}
	case "-":
		if zero(b) {
			return a
		}
		if a == b {
			return IntConst(0)
		}
	case "*":
		if zero(a) || zero(b) {
			return IntConst(0)
		}
		if one(a) {
			return b
		}
		if one(b) {
			return a
		}
	case "div":
		if one(b) {
			return a
		}
		if zero(a) {
			return a
		}
	case "mod":
		if one(b) {
			return IntConst(0)
		}
	}
	if op == "+" || op == "*" {
		if a.id > b.id {
			a, b = b, a
		}
	}
	return mkApp(op, IntSort, a, b)
}

func IAdd(a, b *Term) *Term { return intBin("+", a, b) }
func ISub(a, b *Term) *Term { return intBin("-", a, b) }
func IMul(a, b *Term) *Term { return intBin("*", a, b) }
func IDiv(a, b *Term) *Term { return intBin("div", a, b) }
func IMod(a, b *Term) *Term { return intBin("mod", a, b) }

func intCmp(op string, a, b *Term) *Term {
	if a.sort.K != SInt || b.sort.K != SInt {
		panic(fmt.Sprintf("int cmp %s on %v %v", op, a.sort, b.sort))
	}
	if a.IsConst() && b.IsConst() {
		c := a.c.Cmp(b.c)
		switch op {
		case "<":
			return BoolConst(c < 0)
		case "<=":
			return BoolConst(c <= 0)
		case ">":
			return BoolConst(c > 0)
		case ">=":
			return BoolConst(c >= 0)
		}
	}
	if a == b {
		return BoolConst(op == "<=" || op == ">=")
	}
	return mkApp(op, BoolSort, a, b)
}

func ILt(a, b *Term) *Term { return intCmp("<", a, b) }
func ILe(a, b *Term) *Term { return intCmp("<=", a, b) }
func IGt(a, b *Term) *Term { return intCmp(">", a, b) }
func IGe(a, b *Term) *Term { return intCmp(">=", a, b) }

// BV2Nat / Int2BV bridge the two encodings (used only where a harness mixes them).
func BV2Nat(a *Term) *Term {
	if a.IsConst() {
		return IntConstBig(a.c)
	}
	return mkApp("bv2nat", IntSort, a)
}

func Int2BV(a *Term, w int) *Term {
	if a.IsConst() {
		return mkConst(BV(w), a.c)
	}
	return mkApp(fmt.Sprintf("(_ int2bv %d)", w), BV(w), a)
}

// ---------- printing ----------

func constString(t *Term) string {
	switch t.sort.K {
	case SBool:
		if t.c.Sign() != 0 {
			return "true"
		}
		return "false"
	case SBV:
		if t.sort.W%4 == 0 {
			return fmt.Sprintf("#x%0*s", t.sort.W/4, t.c.Text(16))
		}
		return fmt.Sprintf("#b%0*s", t.sort.W, t.c.Text(2))
	default:
		if t.c.Sign() < 0 {
			return "(- " + new(big.Int).Neg(t.c).String() + ")"
		}
		return t.c.String()
	}
}

func smtName(name string) string { return "|" + strings.ReplaceAll(name, "|", "_") + "|" }

// ref is how a term is referred to inside another term's definition.
func (t *Term) ref() string {
	switch t.op {
	case "const":
		return constString(t)
	case "var":
		return smtName(t.name)
	}
	return fmt.Sprintf("t%d", t.id)
}

func (t *Term) def() string {
	var sb strings.Builder
	sb.WriteString("(")
	sb.WriteString(t.op)
	for _, a := range t.args {
		sb.WriteString(" ")
		sb.WriteString(a.ref())
	}
	sb.WriteString(")")
	return sb.String()
}

// String renders the full expression (debugging / evidence samples; may be large).
func (t *Term) String() string {
	switch t.op {
	case "const":
		return constString(t)
	case "var":
		return t.name
	}
	var sb strings.Builder
	t.write(&sb, 0)
	return sb.String()
}

func (t *Term) write(sb *strings.Builder, depth int) {
	if t.op == "const" || t.op == "var" {
		sb.WriteString(t.String())
		return
	}
	if depth > 6 {
		fmt.Fprintf(sb, "t%d", t.id)
		return
	}
	sb.WriteString("(")
	sb.WriteString(t.op)
	for _, a := range t.args {
		sb.WriteString(" ")
		a.write(sb, depth+1)
	}
	sb.WriteString(")")
}

// Vars collects the free variables of a set of terms.
func Vars(ts ...*Term) []*Term {
	seen := map[int]bool{}
	var out []*Term
	var walk func(t *Term)
	walk = func(t *Term) {
		if seen[t.id] {
			return
		}
		seen[t.id] = true
		if t.op == "var" {
			out = append(out, t)
		}
		for _, a := range t.args {
			walk(a)
		}
	}
	for _, t := range ts {
		walk(t)
	}
	sort.Slice(out, func(i, j int) bool { return out[i].name < out[j].name })
	return out
}

// Eval evaluates a term under a model (var name -> value); used to concretise and to cross-check.
func Eval(t *Term, m map[string]*big.Int, memo map[int]*big.Int) *big.Int {
	if v, ok := memo[t.id]; ok {
		return v
	}
	var r *big.Int
	switch t.op {
	case "const":
		r = t.c
	case "var":
		if v, ok := m[t.name]; ok {
			r = v
		} else {
			r = new(big.Int)
		}
	default:
		args := make([]*Term, len(t.args))
		for i, a := range t.args {
			args[i] = mkConst(a.sort, Eval(a, m, memo))
		}
		c := rebuild(t, args)
		if !c.IsConst() {
			panic("Eval: non-constant result for " + t.op)
		}
		r = c.c
	}
	memo[t.id] = r
	return r
}

func rebuild(t *Term, args []*Term) *Term {
	switch t.op {
	case "not":
		return Not(args[0])
	case "and":
		return And(args...)
	case "or":
		return Or(args...)
	case "ite":
		return Ite(args[0], args[1], args[2])
	case "=":
		return Eq(args[0], args[1])
	case "bvadd", "bvsub", "bvmul", "bvand", "bvor", "bvxor", "bvudiv", "bvurem", "bvsdiv", "bvsrem", "bvshl", "bvlshr", "bvashr":
		return bvBin(t.op, args[0], args[1])
	case "bvnot":
		return BVNot(args[0])
	case "bvneg":
		return BVNeg(args[0])
	case "bvult", "bvule", "bvugt", "bvuge", "bvslt", "bvsle", "bvsgt", "bvsge":
		return bvCmp(t.op, args[0], args[1])
	case "+", "-", "*", "div", "mod":
		return intBin(t.op, args[0], args[1])
	case "<", "<=", ">", ">=":
		return intCmp(t.op, args[0], args[1])
	case "bv2nat":
		return BV2Nat(args[0])
	case "concat":
		return Concat(args[0], args[1])
	}
	if strings.HasPrefix(t.op, "(_ zero_extend") {
		return ZeroExt(args[0], t.sort.W)
	}
	if strings.HasPrefix(t.op, "(_ sign_extend") {
		return SignExt(args[0], t.sort.W)
	}
	if strings.HasPrefix(t.op, "(_ extract") {
		var hi, lo int
		fmt.Sscanf(t.op, "(_ extract %d %d)", &hi, &lo)
		return Extract(args[0], hi, lo)
	}
	if strings.HasPrefix(t.op, "(_ int2bv") {
		return Int2BV(args[0], t.sort.W)
	}
	panic("rebuild: unknown op " + t.op)
}

func Concat(hi, lo *Term) *Term {
	w := hi.sort.W + lo.sort.W
	if hi.IsConst() && lo.IsConst() {
		v := new(big.Int).Lsh(hi.c, uint(lo.sort.W))
		v.Or(v, lo.c)
		return mkConst(BV(w), v)
	}
	return mkApp("concat", BV(w), hi, lo)
}
