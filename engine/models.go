package main

// Environment models (DESIGN §3): boxing of protobuf marshalling, uninterpreted injective hashes,
// math/big as unbounded Int, parameters.

import (
	"fmt"
	"go/types"

	"golang.org/x/tools/go/ssa"
)

// ---- boxing ----

func (in *Interp) newBox(val Value, typ types.Type, tag string) *SliceV {
	in.boxes++
	b := &Box{id: in.boxes, val: copyVal(val), typ: typ, tag: tag}
	return &SliceV{box: b, n: nil}
}

func (in *Interp) boxLen(b *Box) *Term {
	if b.lenT == nil {
		l := in.fresh(fmt.Sprintf("zz.boxlen.%d", b.id), BV(64))
		in.pc = append(in.pc, BVSge(l, goInt(0)), BVSle(l, goInt(1<<30)))
		// proto3: a message encodes to zero bytes iff every field has its default value
		if b.alt == 0 {
			if nz := in.boxNonZero(b.val, 0); nz != nil {
				in.pc = append(in.pc, Eq(Eq(l, goInt(0)), Not(nz)))
			}
		}
		b.lenT = l
	}
	return b.lenT
}

// boxNonZero: "some field of the message value differs from its proto3 default" as a term, or nil
// when the value contains something the walk does not understand (then nothing is asserted).
func (in *Interp) boxNonZero(v Value, depth int) *Term {
	if depth > 6 {
		return nil
	}
	switch x := v.(type) {
	case nil:
		return False
	case *Term:
		switch x.sort.K {
		case SBool:
			return x
		case SInt:
			return Not(Eq(x, IntConst(0)))
		default:
			return Not(Eq(x, BVConst(x.sort.W, 0)))
		}
	case *StringV:
		if x.n == nil {
			return BoolConst(len(x.b) > 0)
		}
		return Not(lenEq(x.n, 0))
	case *SliceV:
		if x == nil || (x.base == nil && x.box == nil) {
			return False
		}
		if x.box != nil {
			return Not(lenEq(in.boxLen(x.box), 0))
		}
		return Not(lenEq(x.n, 0))
	case *Pointer:
		return BoolConst(x != nil) // a present sub-message is encoded (tag + length) even when empty
	case *IfaceV:
		return BoolConst(x != nil && x.T != nil)
	case *MapObj:
		if x == nil {
			return False
		}
		cs := []*Term{}
		for _, e := range x.entries {
			if e.live == nil {
				return True
			}
			cs = append(cs, e.live)
		}
		return Or(cs...)
	case *StructV:
		cs := []*Term{}
		for _, f := range x.f {
			t := in.boxNonZero(f, depth+1)
			if t == nil {
				return nil
			}
			if t == True {
				return True
			}
			cs = append(cs, t)
		}
		return Or(cs...)
	case *ArrayV:
		cs := []*Term{}
		for _, f := range x.e {
			t := in.boxNonZero(f, depth+1)
			if t == nil {
				return nil
			}
			cs = append(cs, t)
		}
		return Or(cs...)
	}
	return nil
}

// deepEq compares two values following pointers (used for marshalled message equality: two
// messages have equal encodings iff they are structurally equal - deterministic injective
// marshalling, DESIGN §3).
func (in *Interp) deepEq(a, b Value, depth int) *Term {
	if depth > 12 {
		in.unsupported("deepEq: structure too deep")
	}
	switch x := a.(type) {
	case *Pointer:
		y, ok := b.(*Pointer)
		if !ok {
			return False
		}
		if x == nil || y == nil {
			return BoolConst(x == nil && y == nil)
		}
		if samePointer(x, y) {
			return True
		}
		return in.deepEq(in.navigate(x), in.navigate(y), depth+1)
	case *StructV:
		y, ok := b.(*StructV)
		if !ok || len(x.f) != len(y.f) {
			return False
		}
		cs := make([]*Term, 0, len(x.f))
		for i := range x.f {
			cs = append(cs, in.deepEq(x.f[i], y.f[i], depth+1))
		}
		return And(cs...)
	case *ArrayV:
		y, ok := b.(*ArrayV)
		if !ok || len(x.e) != len(y.e) {
			return False
		}
		cs := make([]*Term, 0, len(x.e))
		for i := range x.e {
			cs = append(cs, in.deepEq(x.e[i], y.e[i], depth+1))
		}
		return And(cs...)
	case *SliceV:
		y, ok := b.(*SliceV)
		if !ok {
			return False
		}
		if x.box != nil || y.box != nil {
			return in.boxEq(x, y)
		}
		// protobuf does not distinguish nil from empty
		if x.base == nil && y.base == nil {
			return True
		}
		if x.base == nil {
			return lenEq(y.n, 0)
		}
		if y.base == nil {
			return lenEq(x.n, 0)
		}
		if _, isByte := firstElem(in, x).(*Term); isByte || x.cap == 0 {
			if _, isByte2 := firstElem(in, y).(*Term); isByte2 || y.cap == 0 {
				return strEq(in.stringOfBytesLoose(x), in.stringOfBytesLoose(y))
			}
		}
		xn, yn := x.n, y.n
		if !xn.IsConst() || !yn.IsConst() {
			// element-wise with symbolic lengths: concretise
			xe, ye := in.sliceElems(x), in.sliceElems(y)
			if len(xe) != len(ye) {
				return False
			}
			cs := []*Term{}
			for i := range xe {
				cs = append(cs, in.deepEq(xe[i], ye[i], depth+1))
			}
			return And(cs...)
		}
		xe, ye := in.sliceElems(x), in.sliceElems(y)
		if len(xe) != len(ye) {
			return False
		}
		cs := []*Term{}
		for i := range xe {
			cs = append(cs, in.deepEq(xe[i], ye[i], depth+1))
		}
		return And(cs...)
	case *IfaceV:
		y, ok := b.(*IfaceV)
		if !ok {
			return False
		}
		if x.T == nil || y.T == nil {
			return BoolConst(x.T == nil && y.T == nil)
		}
		if !types.Identical(x.T, y.T) {
			return False
		}
		return in.deepEq(x.V, y.V, depth+1)
	case *MapObj:
		y, ok := b.(*MapObj)
		if !ok {
			return False
		}
		if x == y {
			return True
		}
		in.unsupported("deepEq on maps")
	}
	return in.valEq(a, b)
}

func firstElem(in *Interp, s *SliceV) Value {
	if s.base == nil || s.cap == 0 {
		return nil
	}
	return in.arrOf(s).e[s.off]
}

func (in *Interp) stringOfBytesLoose(s *SliceV) *StringV {
	if s.base == nil {
		return &StringV{}
	}
	return in.stringOfBytes(s)
}

func (in *Interp) boxEq(a, b *SliceV) *Term {
	if a.box != nil && b.box != nil {
		if a.box == b.box {
			return True
		}
		if a.box.alt != b.box.alt {
			// different encodings: different byte strings (even when they decode to the same message)
			return False
		}
		if !types.Identical(a.box.typ, b.box.typ) {
			// different message types: encodings could coincide only by accident; unknown
			return in.fresh("zz.boxeq.cross", BoolSort)
		}
		return in.deepEq(a.box.val, b.box.val, 0)
	}
	// box vs raw bytes: nothing is known
	bx := a
	other := b
	if bx.box == nil {
		bx, other = b, a
	}
	if other.base == nil || (other.n.IsConst() && in.constIdx(other.n) == 0) {
		// empty bytes: a marshalled message is empty iff all fields are zero; unknown in general
		return lenEq(in.boxLen(bx.box), 0)
	}
	return in.fresh("zz.boxeq.raw", BoolSort)
}

func (in *Interp) boxBytes(b *Box) []*Term {
	in.unsupported("byte-level view of an opaque marshalled message (" + b.tag + ")")
	return nil
}

// ---- uninterpreted injective hash ----

// hashUF returns n symbolic bytes for input v such that equal inputs give equal outputs and
// different inputs different outputs (collision resistance), by instantiating the axioms against
// every earlier call of the same function on this path.
func (in *Interp) hashUF(fname string, input Value, n int) []*Term {
	eqTo := func(prev Value) *Term {
		pa, aok := prev.(*SliceV)
		pb, bok := input.(*SliceV)
		if aok && bok {
			return in.bytesEq(pa, pb)
		}
		return in.deepEq(prev, input, 0)
	}
	var conds []*Term
	for _, hc := range in.hashCalls {
		if hc.fn != fname {
			continue
		}
		e := eqTo(hc.in)
		if e == True {
			return hc.out
		}
		conds = append(conds, e)
	}
	out := make([]*Term, n)
	k := 0
	for _, hc := range in.hashCalls {
		if hc.fn == fname {
			k++
		}
	}
	for i := range out {
		out[i] = in.fresh(fmt.Sprintf("zz.%s.%d[%d]", fname, k, i), BV(8))
	}
	j := 0
	for _, hc := range in.hashCalls {
		if hc.fn != fname {
			continue
		}
		e := conds[j]
		j++
		same := make([]*Term, n)
		for i := range out {
			same[i] = Eq(out[i], hc.out[i])
		}
		// e <=> outputs equal
		in.pc = append(in.pc, Eq(e, And(same...)))
	}
	var snap Value = input
	if s, ok := input.(*SliceV); ok && s.box == nil && s.base != nil {
		// snapshot the bytes (the caller may overwrite the buffer later)
		str := in.stringOfBytes(s)
		snap = in.bytesOfString(str)
	}
	in.hashCalls = append(in.hashCalls, hashCall{fn: fname, in: snap, out: out})
	return out
}

func (in *Interp) bytesFromTerms(ts []*Term, name string) *SliceV {
	arr := &ArrayV{e: make([]Value, len(ts))}
	for i, t := range ts {
		arr.e[i] = t
	}
	o := in.newObject(nil, arr, name)
	return &SliceV{base: &Pointer{obj: o}, n: goInt(len(ts)), cap: len(ts)}
}

func init() {
	zzFuncs["zzParam"] = func(in *Interp, fn *ssa.Function, a []Value) Value {
		name := argString(in, a[0])
		if v, ok := in.run.cfg.Params[name]; ok {
			return goInt(v)
		}
		return a[1]
	}
	// zzHash(tag string, data []byte, n int) []byte : injective uninterpreted hash
	zzFuncs["zzHash"] = func(in *Interp, fn *ssa.Function, a []Value) Value {
		n := in.constIdx(a[2].(*Term))
		return in.bytesFromTerms(in.hashUF(argString(in, a[0]), a[1], n), "hash")
	}
	registerIntrinsic("hash32", func(in *Interp, fn *ssa.Function, a []Value) Value {
		return in.bytesFromTerms(in.hashUF("hash32", a[0], 32), "hash")
	})
	registerIntrinsic("hash20", func(in *Interp, fn *ssa.Function, a []Value) Value {
		return in.bytesFromTerms(in.hashUF("hash20", a[0], 20), "hash")
	})
}

// ---- protobuf marshalling as boxing (DESIGN §3) ----

// deepSnapshot copies a value following pointers and slices, so that a box is immune to later
// mutation of the message it was made from.
func (in *Interp) deepSnapshot(v Value, depth int, seen map[*Object]*Object) Value {
	if depth > 16 {
		in.unsupported("deepSnapshot: structure too deep")
	}
	switch x := v.(type) {
	case *Pointer:
		if x == nil {
			return x
		}
		if len(x.path) == 0 {
			if o, ok := seen[x.obj]; ok {
				return &Pointer{obj: o}
			}
			no := in.newObject(x.obj.typ, nil, x.obj.name+"'")
			seen[x.obj] = no
			no.v = in.deepSnapshot(x.obj.v, depth+1, seen)
			return &Pointer{obj: no}
		}
		// interior pointer: snapshot the pointee as a fresh root object
		no := in.newObject(nil, in.deepSnapshot(in.navigate(x), depth+1, seen), "snap")
		return &Pointer{obj: no}
	case *StructV:
		n := &StructV{f: make([]Value, len(x.f))}
		for i, f := range x.f {
			n.f[i] = in.deepSnapshot(f, depth+1, seen)
		}
		return n
	case *ArrayV:
		n := &ArrayV{e: make([]Value, len(x.e))}
		for i, f := range x.e {
			n.e[i] = in.deepSnapshot(f, depth+1, seen)
		}
		return n
	case *SliceV:
		if x.box != nil || x.base == nil {
			return x
		}
		arr := in.arrOf(x)
		hi := x.off + x.cap
		if x.n.IsConst() {
			hi = x.off + in.constIdx(x.n)
		}
		na := &ArrayV{e: make([]Value, hi-x.off)}
		for i := range na.e {
			na.e[i] = in.deepSnapshot(arr.e[x.off+i], depth+1, seen)
		}
		o := in.newObject(nil, na, "snap-slice")
		return &SliceV{base: &Pointer{obj: o}, n: x.n, cap: len(na.e)}
	case *IfaceV:
		if x.T == nil {
			return x
		}
		return &IfaceV{T: x.T, V: in.deepSnapshot(x.V, depth+1, seen)}
	}
	return v
}

func (in *Interp) nilErrorI() Value { return &IfaceV{} }

func (in *Interp) marshalModel(msg Value) Value {
	iv, ok := msg.(*IfaceV)
	if !ok {
		in.unsupported("Marshal of non-interface")
	}
	if iv.T == nil {
		return TupleV{in.newBox(&StructV{}, types.Typ[types.Invalid], "nil"), in.nilErrorI()}
	}
	p, ok := iv.V.(*Pointer)
	if !ok {
		in.unsupported("Marshal of non-pointer message")
	}
	pt, _ := iv.T.Underlying().(*types.Pointer)
	if pt == nil {
		in.unsupported("Marshal of non-pointer message type")
	}
	var val Value = (*Pointer)(nil)
	if p != nil {
		val = in.deepSnapshot(in.navigate(p), 0, map[*Object]*Object{})
	} else {
		// marshalling a nil message yields empty bytes
		return TupleV{&SliceV{n: goInt(0)}, in.nilErrorI()}
	}
	return TupleV{in.newBox(val, pt.Elem(), typeKey(pt.Elem())), in.nilErrorI()}
}

func (in *Interp) unmarshalModel(bz Value, ptr Value) Value {
	s := bz.(*SliceV)
	iv, _ := ptr.(*IfaceV)
	if (s.base == nil && s.box == nil) || iv == nil || iv.T == nil {
		return in.nilErrorI()
	}
	p, ok := iv.V.(*Pointer)
	if !ok || p == nil {
		return in.opaqueError("unmarshal into nil")
	}
	pt, _ := iv.T.Underlying().(*types.Pointer)
	if s.box == nil {
		if s.n.IsConst() && in.constIdx(s.n) == 0 {
			// empty bytes decode to the zero message
			in.store(p, in.zero(pt.Elem()))
			return in.nilErrorI()
		}
		in.unsupported("Unmarshal of raw (non-boxed) bytes into " + typeKey(iv.T))
	}
	if !types.Identical(s.box.typ, pt.Elem()) {
		// decoding bytes of one message type as another: outcome unknown -> error or garbage; model as error
		if in.decide(in.fresh("zz.unmarshal.crosstype.fails", BoolSort)) {
			return in.opaqueError("unmarshal: wrong message type")
		}
		in.unsupported("cross-type Unmarshal succeeded (" + typeKey(s.box.typ) + " as " + typeKey(pt.Elem()) + ")")
	}
	in.store(p, in.deepSnapshot(s.box.val, 0, map[*Object]*Object{}))
	return in.nilErrorI()
}

func init() {
	// proto.Clone: a deep copy of the message (protobuf's reflection walk is out of reach)
	registerIntrinsic("proto.Clone", func(in *Interp, fn *ssa.Function, a []Value) Value {
		iv, ok := a[0].(*IfaceV)
		if !ok || iv.T == nil {
			return a[0]
		}
		p, ok := iv.V.(*Pointer)
		if !ok || p == nil {
			return a[0]
		}
		pt, _ := iv.T.Underlying().(*types.Pointer)
		if pt == nil {
			in.unsupported("proto.Clone of non-pointer message")
		}
		cp := in.deepSnapshot(in.navigate(p), 0, map[*Object]*Object{})
		o := in.newObject(pt.Elem(), cp, "proto.Clone")
		return &IfaceV{T: iv.T, V: &Pointer{obj: o}}
	})
	registerIntrinsic("box.Marshal", func(in *Interp, fn *ssa.Function, a []Value) Value { return in.marshalModel(a[0]) })
	registerIntrinsic("box.Unmarshal", func(in *Interp, fn *ssa.Function, a []Value) Value { return in.unmarshalModel(a[0], a[1]) })
	registerIntrinsic("hash32.err", func(in *Interp, fn *ssa.Function, a []Value) Value {
		// methods: receiver first, bytes last
		return TupleV{in.bytesFromTerms(in.hashUF("hash32", a[len(a)-1], 32), "hash"), in.nilErrorI()}
	})
	// hash of a message reached through a pointer receiver (e.g. (*CertificateResult).Hash)
	registerIntrinsic("hashdeep32", func(in *Interp, fn *ssa.Function, a []Value) Value {
		p, _ := a[0].(*Pointer)
		var v Value = p
		if p != nil {
			v = in.deepSnapshot(in.navigate(p), 0, map[*Object]*Object{})
		}
		return in.bytesFromTerms(in.hashUF("hashdeep32:"+fn.String(), v, 32), "hash")
	})
}
