package main

// gosym: bounded symbolic execution of real Go functions (go/ssa) with SMT back ends.
//
//   gosym -dir /repo -pkg ./store -harness h1.go,h2.go -zzlib zzlib.go.tmpl \
//         -entry 'ZZ_C08_.*' -tier quick -out result.json [-j 8]
//
// The harness files are injected into the package through a go/packages overlay; /repo is never
// written. Every run re-loads and re-lowers the package from the current working tree.

import (
	"encoding/json"
	"flag"
	"fmt"
	"go/ast"
	"go/parser"
	"go/token"
	"go/types"
	"math/big"
	"os"
	"path/filepath"
	"regexp"
	"runtime/pprof"
	"sort"
	"strconv"
	"strings"
	"sync"
	"time"

	"golang.org/x/tools/go/packages"
	"golang.org/x/tools/go/ssa"
	"golang.org/x/tools/go/ssa/ssautil"
)

var globalStubs, globalPrefix = map[string]StubSpec{}, map[string]StubSpec{}

type entrySpec struct {
	name    string
	opts    map[string]string
	stubs   map[string]StubSpec
	prefix  map[string]StubSpec
	reach   []string
	file    string
}

func main() {
	dir := flag.String("dir", "/repo", "module directory")
	pkgPat := flag.String("pkg", "", "package pattern relative to dir (e.g. ./store)")
	harness := flag.String("harness", "", "comma separated harness files (package-internal)")
	zzlib := flag.String("zzlib", "", "zz primitives template")
	entryRe := flag.String("entry", ".*", "regexp selecting harness entry functions (ZZ_ prefix)")
	onlyRe := flag.String("only", ".*", "second regexp an entry must match as well (the driver's --entry within a group's own selection)")
	tier := flag.String("tier", "quick", "quick|thorough")
	out := flag.String("out", "", "result JSON path")
	jobs := flag.Int("j", 8, "parallel entries")
	solverLog := flag.String("solverlog", "", "write SMT-LIB traffic of the first obligation solver here")
	listOnly := flag.Bool("list", false, "list entries and exit")
	cpuprof := flag.String("cpuprofile", "", "write a CPU profile of the run")
	workers := flag.Int("workers", 0, "path-exploration workers per entry (0 = share 16 cores among running entries)")
	concrete := flag.String("concrete", "", "translator validation: JSON list of {entry, model, params}; each is run on its one concrete path")
	flag.Parse()
	if *cpuprof != "" {
		f, _ := os.Create(*cpuprof)
		pprof.StartCPUProfile(f)
		defer pprof.StopCPUProfile()
	}
	if *pkgPat == "" || *harness == "" {
		fatalf("need -pkg and -harness")
	}
	t0 := time.Now()
	os.Setenv("PATH", "/opt/veriftools/go1.26.8/bin:"+os.Getenv("PATH"))
	absPkgDir := filepath.Join(*dir, *pkgPat)
	overlay := map[string][]byte{}
	var specs []*entrySpec
	pkgName := ""
	var templates []string
	for _, h := range strings.Split(*harness, ",") {
		if strings.HasSuffix(h, ".tmpl") {
			templates = append(templates, h) // package-generic helper: PKGNAME substituted below
			continue
		}
		src, err := os.ReadFile(h)
		if err != nil {
			fatalf("read harness: %v", err)
		}
		overlay[filepath.Join(absPkgDir, "zz_verif_"+filepath.Base(h))] = src
		ss, pn := parseDirectives(h, src)
		specs = append(specs, ss...)
		pkgName = pn
	}
	for _, h := range templates {
		src, err := os.ReadFile(h)
		if err != nil {
			fatalf("read harness template: %v", err)
		}
		name := "zz_verif_" + strings.TrimSuffix(filepath.Base(h), ".tmpl")
		sub := []byte(strings.ReplaceAll(string(src), "PKGNAME", pkgName))
		overlay[filepath.Join(absPkgDir, name)] = sub
		parseDirectives(h, sub) // shared stub directives
	}
	if *zzlib != "" {
		src, err := os.ReadFile(*zzlib)
		if err != nil {
			fatalf("read zzlib: %v", err)
		}
		overlay[filepath.Join(absPkgDir, "zz_verif_lib.go")] = []byte(strings.ReplaceAll(string(src), "PKGNAME", pkgName))
	}
	re := regexp.MustCompile("^(" + *entryRe + ")$")
	re2 := regexp.MustCompile("^(" + *onlyRe + ")$")
	var sel []*entrySpec
	for _, s := range specs {
		if re.MatchString(s.name) && re2.MatchString(s.name) {
			if t, ok := s.opts["tier"]; ok && t == "thorough" && *tier != "thorough" {
				continue
			}
			sel = append(sel, s)
		}
	}
	if *listOnly {
		for _, s := range sel {
			fmt.Println(s.name)
		}
		return
	}
	if len(sel) == 0 {
		fatalf("no entries match %s", *entryRe)
	}

	cfg := &packages.Config{
		Mode:    packages.LoadAllSyntax,
		Dir:     *dir,
		Overlay: overlay,
		Env: append(os.Environ(), "GOFLAGS=-mod=readonly", "GOPROXY=off", "GOSUMDB=off", "GOTOOLCHAIN=local",
			"PATH=/opt/veriftools/go1.26.8/bin:"+os.Getenv("PATH")),
	}
	pkgs, err := packages.Load(cfg, *pkgPat)
	if err != nil {
		fatalf("load: %v", err)
	}
	nerr := 0
	packages.Visit(pkgs, nil, func(p *packages.Package) {
		for _, e := range p.Errors {
			fmt.Fprintf(os.Stderr, "load error: %s: %v\n", p.PkgPath, e)
			nerr++
		}
	})
	if nerr > 0 {
		fatalf("package load errors: %d", nerr)
	}
	prog, spkgs := ssautil.AllPackages(pkgs, ssa.InstantiateGenerics)
	prog.Build()
	var mainPkg *ssa.Package
	for _, p := range spkgs {
		if p != nil && p.Pkg.Name() == pkgName {
			mainPkg = p
		}
	}
	if mainPkg == nil {
		fatalf("package %s not found after load", pkgName)
	}
	loadS := time.Since(t0).Seconds()

	// type of errors.errorString for opaque errors
	var errStrT, bigIntT types.Type
	for _, p := range prog.AllPackages() {
		if p.Pkg.Path() == "errors" {
			if tn, ok := p.Members["errorString"].(*ssa.Type); ok {
				errStrT = tn.Type()
			}
		}
		if p.Pkg.Path() == "math/big" {
			if tn, ok := p.Members["Int"].(*ssa.Type); ok {
				bigIntT = tn.Type()
			}
		}
	}
	funcIndex := map[string]*ssa.Function{}
	for fn := range ssautil.AllFunctions(prog) {
		funcIndex[fn.String()] = fn
	}

	if *concrete != "" {
		type item struct {
			Entry  string            `json:"entry"`
			Model  map[string]string `json:"model"`
			Params map[string]int    `json:"params"`
		}
		var items []item
		bz, err := os.ReadFile(*concrete)
		if err != nil {
			fatalf("read %s: %v", *concrete, err)
		}
		if err := json.Unmarshal(bz, &items); err != nil {
			fatalf("parse %s: %v", *concrete, err)
		}
		byName := map[string]*entrySpec{}
		for _, sp := range specs {
			byName[sp.name] = sp
		}
		var outList []map[string]interface{}
		for _, it := range items {
			sp := byName[it.Entry]
			fn := mainPkg.Func(it.Entry)
			if sp == nil || fn == nil {
				outList = append(outList, map[string]interface{}{"entry": it.Entry, "error": "entry not found"})
				continue
			}
			c := buildConfig(sp, *tier)
			for k, v := range it.Params {
				c.Params[k] = v
			}
			c.Concrete = map[string]*big.Int{}
			for k, v := range it.Model {
				b, ok := new(big.Int).SetString(v, 10)
				if ok {
					c.Concrete[k] = b
				}
			}
			c.Workers = 1
			r := &Run{cfg: c, prog: prog, pkg: mainPkg, entry: fn, obMap: map[string]*Obligation{}, reachMap: map[string]*ReachRec{},
				incSet: map[string]bool{}, violSeen: map[string]int{}, initSnap: map[*ssa.Package]*pkgSnap{}, errorStringT: errStrT, bigIntT: bigIntT, funcIndex: funcIndex}
			r.res = &EntryResult{Entry: it.Entry, Package: mainPkg.Pkg.Path(), Options: sp.opts, Aborted: map[string]int{}, AbortSamples: map[string]string{},
				FuncsReal: map[string]int{}, FuncsStubbed: map[string]int{}, Panics: map[string]int{}, Events: map[string]int{}, Bounds: map[string]int{}}
			res := r.Execute()
			var reached []string
			for _, rr := range res.Reach {
				reached = append(reached, rr.ID)
			}
			outList = append(outList, map[string]interface{}{"entry": it.Entry, "failed": res.ConcreteFailed, "nonconcrete": res.ConcreteNonConcrete, "reached": reached,
				"assume_failed": res.Aborted["assume"] > 0, "panicked": len(res.Panics) > 0, "paths": res.Paths, "aborted": res.Aborted,
				"inconclusive": res.Inconclusive, "engine_error": res.EngineError})
		}
		js, _ := json.MarshalIndent(outList, "", " ")
		if *out != "" {
			os.WriteFile(*out, js, 0o644)
		} else {
			os.Stdout.Write(js)
		}
		return
	}

	results := make([]*EntryResult, len(sel))
	var wg sync.WaitGroup
	sem := make(chan struct{}, *jobs)
	for i, s := range sel {
		wg.Add(1)
		go func(i int, s *entrySpec) {
			defer wg.Done()
			sem <- struct{}{}
			defer func() { <-sem }()
			fn := mainPkg.Func(s.name)
			if fn == nil {
				results[i] = &EntryResult{Entry: s.name, Status: "inconclusive", Inconclusive: []string{"entry function not found"}}
				return
			}
			c := buildConfig(s, *tier)
			r := &Run{cfg: c, prog: prog, pkg: mainPkg, entry: fn, obMap: map[string]*Obligation{}, reachMap: map[string]*ReachRec{},
				incSet: map[string]bool{}, violSeen: map[string]int{}, initSnap: map[*ssa.Package]*pkgSnap{}, errorStringT: errStrT, bigIntT: bigIntT, funcIndex: funcIndex, expectReach: s.reach}
			r.res = &EntryResult{Entry: s.name, Package: mainPkg.Pkg.Path(), Options: s.opts, Aborted: map[string]int{}, AbortSamples: map[string]string{},
				FuncsReal: map[string]int{}, FuncsStubbed: map[string]int{}, Panics: map[string]int{}, Events: map[string]int{}, Bounds: map[string]int{}}
			r.res.Mode = "bv"
			if c.IntMode {
				r.res.Mode = "int"
			}
			r.res.Bounds["unwind"] = c.Unwind
			r.res.Bounds["max_alloc"] = c.MaxAlloc
			r.res.Bounds["max_paths"] = c.MaxPaths
			for k, v := range c.Params {
				r.res.Bounds["param:"+k] = v
			}
			if c.Workers == 0 {
				c.Workers = *workers
				if c.Workers == 0 {
					// spread the cores over the entries that run concurrently
					conc := len(sel)
					if conc > *jobs {
						conc = *jobs
					}
					c.Workers = 16 / conc
					if c.Workers < 1 {
						c.Workers = 1
					}
					if c.Workers > 8 {
						c.Workers = 8
					}
				}
			}
			_ = solverLog
			results[i] = r.Execute()
			fmt.Fprintf(os.Stderr, "[%s] %s paths=%d obligations=%d wall=%.1fs\n", results[i].Status, s.name, results[i].Paths, len(results[i].Obligations), results[i].WallS)
		}(i, s)
	}
	wg.Wait()
	doc := map[string]interface{}{
		"package": mainPkg.Pkg.Path(), "tier": *tier, "load_s": loadS, "wall_s": time.Since(t0).Seconds(),
		"entries": results, "solver_processes": solverSpawned,
	}
	js, _ := json.MarshalIndent(doc, "", " ")
	if *out != "" {
		os.WriteFile(*out, js, 0o644)
	} else {
		os.Stdout.Write(js)
	}
}

func buildConfig(s *entrySpec, tier string) *Config {
	c := &Config{Entry: s.name, Unwind: 64, MaxDepth: 200, MaxSteps: 20_000_000, MaxAlloc: 16, MaxConcreteAlloc: 1 << 16, NondetBytes: 8,
		PanicPolicy: "inconclusive", Stubs: s.stubs, StubPrefixes: s.prefix, NoInit: map[string]bool{}, MaxPaths: 200000,
		FeasTimeout: 2 * time.Second, ObTimeout: 30 * time.Second, Solvers: []string{"z3new", "cvc5"}, Params: map[string]int{}, Tier: tier}
	if tier == "thorough" {
		c.ObTimeout = 300 * time.Second
	}
	c.Stubs, c.StubPrefixes = map[string]StubSpec{}, map[string]StubSpec{}
	for k, v := range globalStubs {
		c.Stubs[k] = v
	}
	for k, v := range globalPrefix {
		c.StubPrefixes[k] = v
	}
	for k, v := range s.stubs {
		c.Stubs[k] = v
	}
	for k, v := range s.prefix {
		c.StubPrefixes[k] = v
	}
	geti := func(k string, dst *int) {
		// tier-specific override: k@quick / k@thorough
		if v, ok := s.opts[k+"@"+tier]; ok {
			*dst, _ = strconv.Atoi(v)
			return
		}
		if v, ok := s.opts[k]; ok {
			*dst, _ = strconv.Atoi(v)
		}
	}
	geti("unwind", &c.Unwind)
	geti("maxalloc", &c.MaxAlloc)
	geti("maxconcretealloc", &c.MaxConcreteAlloc)
	geti("maxpaths", &c.MaxPaths)
	geti("maxsteps", &c.MaxSteps)
	geti("nondetbytes", &c.NondetBytes)
	geti("maxdepth", &c.MaxDepth)
	c.InitBudget = 20000
	geti("initbudget", &c.InitBudget)
	var tb, ot, ft int
	geti("timebudget", &tb)
	if tb > 0 {
		c.TimeBudget = time.Duration(tb) * time.Second
	}
	geti("obtimeout", &ot)
	if ot > 0 {
		c.ObTimeout = time.Duration(ot) * time.Second
	}
	geti("feastimeout", &ft)
	if ft > 0 {
		c.FeasTimeout = time.Duration(ft) * time.Millisecond
	}
	if s.opts["mode"] == "int" {
		c.IntMode = true
	}
	geti("workers", &c.Workers)
	if s.opts["initcache"] == "off" {
		c.NoInitCache = true
	}
	if s.opts["ifconv"] == "off" {
		c.NoIfConv = true
	}
	if v, ok := s.opts["maporder"]; ok {
		c.MapOrder = v
	}
	if v, ok := s.opts["go"]; ok {
		c.GoPolicy = v
	}
	if v, ok := s.opts["panic"]; ok {
		c.PanicPolicy = v
	}
	if v, ok := s.opts["solvers"]; ok {
		c.Solvers = strings.Split(v, "+")
	}
	if v, ok := s.opts["noinit"]; ok {
		for _, p := range strings.Split(v, "+") {
			c.NoInit[p] = true
		}
	}
	for k, v := range s.opts {
		if strings.HasPrefix(k, "param.") {
			name := strings.TrimPrefix(k, "param.")
			if i := strings.Index(name, "@"); i >= 0 {
				if name[i+1:] != tier {
					continue
				}
				name = name[:i]
				c.Params[name], _ = strconv.Atoi(v)
			} else if _, have := c.Params[name]; !have {
				c.Params[name], _ = strconv.Atoi(v)
			}
		}
	}
	return c
}

// parseDirectives reads //zz: lines from function doc comments (per entry) and from the file
// header (shared by every entry in the file).
//
//	//zz:harness key=value ...      options (unwind, mode, panic, maporder, param.N=…, param.N@thorough=…)
//	//zz:stub <function> <kind> [arg]
//	//zz:stubprefix <prefix> <kind> [arg]
//	//zz:reach id1 id2 …           reach-points that must be hit (vacuity)
func parseDirectives(path string, src []byte) ([]*entrySpec, string) {
	fset := token.NewFileSet()
	f, err := parser.ParseFile(fset, path, src, parser.ParseComments)
	if err != nil {
		fatalf("parse %s: %v", path, err)
	}
	fileSpec := &entrySpec{opts: map[string]string{}, stubs: map[string]StubSpec{}, prefix: map[string]StubSpec{}}
	apply := func(s *entrySpec, line string) {
		line = strings.TrimSpace(strings.TrimPrefix(line, "//zz:"))
		fs := strings.Fields(line)
		if len(fs) == 0 {
			return
		}
		switch fs[0] {
		case "harness":
			for _, kv := range fs[1:] {
				if i := strings.Index(kv, "="); i > 0 {
					s.opts[kv[:i]] = kv[i+1:]
				}
			}
		case "stub", "stubprefix":
			if len(fs) < 3 {
				fatalf("%s: bad directive %q", path, line)
			}
			sp := StubSpec{Kind: fs[2]}
			if len(fs) > 3 {
				sp.Arg = fs[3]
			}
			if fs[0] == "stub" {
				s.stubs[fs[1]] = sp
			} else {
				s.prefix[fs[1]] = sp
			}
		case "reach":
			s.reach = append(s.reach, fs[1:]...)
		}
	}
	funcDocs := map[*ast.CommentGroup]bool{}
	for _, d := range f.Decls {
		if fd, ok := d.(*ast.FuncDecl); ok && fd.Doc != nil {
			funcDocs[fd.Doc] = true
		}
	}
	for _, cg := range f.Comments {
		// directives outside function doc comments apply to every entry in the file
		if !funcDocs[cg] {
			for _, c := range cg.List {
				if strings.HasPrefix(c.Text, "//zz:") {
					apply(fileSpec, c.Text)
				}
			}
		}
	}
	// stub directives outside function docs are shared by every entry of the run (helper files)
	for k, v := range fileSpec.stubs {
		globalStubs[k] = v
	}
	for k, v := range fileSpec.prefix {
		globalPrefix[k] = v
	}
	var out []*entrySpec
	for _, d := range f.Decls {
		fd, ok := d.(*ast.FuncDecl)
		if !ok || fd.Recv != nil || !strings.HasPrefix(fd.Name.Name, "ZZ_") {
			continue
		}
		s := &entrySpec{name: fd.Name.Name, opts: map[string]string{}, stubs: map[string]StubSpec{}, prefix: map[string]StubSpec{}, file: path}
		for k, v := range fileSpec.opts {
			s.opts[k] = v
		}
		for k, v := range fileSpec.stubs {
			s.stubs[k] = v
		}
		for k, v := range fileSpec.prefix {
			s.prefix[k] = v
		}
		s.reach = append(s.reach, fileSpec.reach...)
		if fd.Doc != nil {
			for _, c := range fd.Doc.List {
				if strings.HasPrefix(c.Text, "//zz:") {
					apply(s, c.Text)
				}
			}
		}
		out = append(out, s)
	}
	sort.Slice(out, func(i, j int) bool { return out[i].name < out[j].name })
	return out, f.Name.Name
}
