package main

// Model of string formatting (fmt.Sprintf, fmt.Sprint, strconv.Itoa/FormatUint/FormatInt).
//
//   * every argument concrete and of a plain kind (integers, bools, strings, byte slices):
//     the real formatting function is run natively - exact.
//   * some argument symbolic: the result is an 8-byte string of fresh symbols that is a
//     FUNCTION of (format, argument values) and INJECTIVE in them (same hashUF machinery as the
//     uninterpreted hashes). That is what callers who use a formatted string as an identifier
//     (map key, store key) rely on; it is not exact for formats whose renderings can collide
//     ("%d%d") - recorded as an assumption in DESIGN 9.1.
//   * arguments that cannot be flattened (pointers, structs, errors ...): the old opaque constant
//     (these are log / error texts).

import (
	"fmt"
	"go/types"
	"strconv"

	"golang.org/x/tools/go/ssa"
)

// goValue converts a concrete engine value into a plain Go value for native formatting.
func (in *Interp) goValue(v Value, t types.Type) (interface{}, bool) {
	switch x := v.(type) {
	case *IfaceV:
		if x == nil || x.T == nil {
			return nil, false
		}
		// named types may have String()/Error()/Format methods the native call cannot see
		if nt, ok := x.T.(*types.Named); ok && nt.NumMethods() > 0 {
			return nil, false
		}
		if _, ok := x.T.(*types.Pointer); ok {
			return nil, false
		}
		return in.goValue(x.V, x.T)
	case *Term:
		if !x.IsConst() || t == nil {
			return nil, false
		}
		if isBool(t) {
			return x == True, true
		}
		ii, ok := basicInfo(t)
		if !ok {
			return nil, false
		}
		if ii.signed {
			c := x.c
			if x.sort.K == SBV {
				c = signedVal(x.c, x.sort.W)
			}
			return c.Int64(), true
		}
		return x.c.Uint64(), true
	case *StringV:
		if s, ok := x.concrete(); ok {
			return s, true
		}
		return nil, false
	case *SliceV:
		if x.base == nil {
			return []byte(nil), true
		}
		if x.box != nil || !x.n.IsConst() {
			return nil, false
		}
		if st, ok := t.Underlying().(*types.Slice); !ok || !isByteType(st.Elem()) {
			return nil, false
		}
		s, ok := in.stringOfBytesLoose(x).concrete()
		if !ok {
			return nil, false
		}
		return []byte(s), true
	}
	return nil, false
}

func isByteType(t types.Type) bool {
	b, ok := t.Underlying().(*types.Basic)
	return ok && b.Kind() == types.Uint8
}

// leaves flattens an argument into scalar terms (nil, false if it contains anything else).
func (in *Interp) fmtLeaves(v Value, out []Value) ([]Value, bool) {
	switch x := v.(type) {
	case *IfaceV:
		if x == nil || x.T == nil {
			return out, false
		}
		if _, ok := x.T.(*types.Pointer); ok {
			return out, false
		}
		return in.fmtLeaves(x.V, out)
	case *Term:
		return append(out, x), true
	case *StringV:
		if x.n != nil && !x.n.IsConst() {
			return out, false
		}
		for _, b := range x.b {
			out = append(out, b)
		}
		return append(out, BVConstU(8, 0xFF)), true // terminator between arguments
	case *SliceV:
		if x.base == nil {
			return append(out, BVConstU(8, 0xFF)), true
		}
		if x.box != nil || !x.n.IsConst() {
			return out, false
		}
		if _, isByte := firstElem(in, x).(*Term); !isByte && x.cap != 0 {
			return out, false
		}
		return in.fmtLeaves(in.stringOfBytesLoose(x), out)
	}
	return out, false
}

func init() {
	registerIntrinsic("fmt.format", func(in *Interp, fn *ssa.Function, a []Value) Value {
		name := fn.String()
		params := fn.Signature.Params()
		// collect (format, argument list with static types)
		format := ""
		var args []Value
		var argTypes []types.Type
		for i, v := range a {
			var pt types.Type
			if i < params.Len() {
				pt = params.At(i).Type()
			}
			if i == 0 && name == "fmt.Sprintf" {
				if s, ok := v.(*StringV); ok {
					if c, ok := s.concrete(); ok {
						format = c
						continue
					}
				}
				return mkString("<" + fn.Name() + ">")
			}
			if sl, ok := v.(*SliceV); ok && fn.Signature.Variadic() && i == len(a)-1 {
				if sl.base != nil {
					for _, e := range in.sliceElems(sl) {
						args = append(args, e)
						argTypes = append(argTypes, nil)
					}
				}
				continue
			}
			args = append(args, v)
			argTypes = append(argTypes, pt)
		}
		// 1. exact native evaluation
		gos := make([]interface{}, 0, len(args))
		allConcrete := true
		for i, v := range args {
			g, ok := in.goValue(v, argTypes[i])
			if !ok {
				allConcrete = false
				break
			}
			gos = append(gos, g)
		}
		if allConcrete {
			switch name {
			case "fmt.Sprintf":
				return mkString(fmt.Sprintf(format, gos...))
			case "fmt.Sprint":
				return mkString(fmt.Sprint(gos...))
			case "strconv.Itoa":
				if len(gos) == 1 {
					if x, ok := gos[0].(int64); ok {
						return mkString(strconv.Itoa(int(x)))
					}
				}
			case "strconv.FormatUint":
				if len(gos) == 2 {
					x, ok1 := gos[0].(uint64)
					b, ok2 := gos[1].(int64)
					if ok1 && ok2 {
						return mkString(strconv.FormatUint(x, int(b)))
					}
				}
			case "strconv.FormatInt":
				if len(gos) == 2 {
					x, ok1 := gos[0].(int64)
					b, ok2 := gos[1].(int64)
					if ok1 && ok2 {
						return mkString(strconv.FormatInt(x, int(b)))
					}
				}
			}
		}
		// 2. injective uninterpreted function of the argument values
		var leaves []Value
		ok := true
		for _, v := range args {
			if leaves, ok = in.fmtLeaves(v, leaves); !ok {
				break
			}
		}
		if ok && len(leaves) > 0 {
			out := in.hashUF("fmt:"+fn.Name()+":"+format, &ArrayV{e: leaves}, 8)
			return &StringV{b: out}
		}
		// 3. log / error text
		if format != "" {
			return mkString("<" + fn.Name() + ":" + format + ">")
		}
		return mkString("<" + fn.Name() + ">")
	})
}
