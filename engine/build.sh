#!/bin/sh
# builds the gosym engine offline from the sources in this directory
cd "$(dirname "$0")" && GOFLAGS=-mod=mod GOPROXY=off GOSUMDB=off GOTOOLCHAIN=local go1.26.8 build -o gosym . 
