package main

import (
	"fmt"
	"go/token"
	"go/types"
	"strings"

	"golang.org/x/tools/go/ssa"
)

const tokLSS = token.LSS

type StubSpec struct {
	Kind string // noop | nondet | harness | intrinsic | unsupported | real
	Arg  string
}

type intrinsicFn func(in *Interp, fn *ssa.Function, args []Value) Value

var intrinsics = map[string]intrinsicFn{}

func registerIntrinsic(name string, f intrinsicFn) { intrinsics[name] = f }

// default stubs by prefix (longest match wins); harness directives override.
var defaultStubs = []struct {
	prefix string
	spec   StubSpec
}{
	{"(*sync.Mutex).", StubSpec{"noop", ""}},
	{"(*sync.RWMutex).", StubSpec{"noop", ""}},
	{"(*sync.WaitGroup).", StubSpec{"noop", ""}},
	{"(*sync.Once).Do", StubSpec{"intrinsic", "once.Do"}},
	{"runtime.", StubSpec{"noop", ""}},
	{"runtime/debug.", StubSpec{"noop", ""}},
	{"time.Now", StubSpec{"noop", ""}},
	{"time.Since", StubSpec{"noop", ""}},
	{"time.Sleep", StubSpec{"noop", ""}},
	{"(time.Time).", StubSpec{"noop", ""}},
	{"(time.Duration).String", StubSpec{"intrinsic", "opaque.string"}},
	{"fmt.Sprintf", StubSpec{"intrinsic", "fmt.format"}},
	{"fmt.Sprint", StubSpec{"intrinsic", "fmt.format"}},
	{"fmt.Errorf", StubSpec{"intrinsic", "opaque.error"}},
	{"fmt.Print", StubSpec{"noop", ""}},
	{"fmt.Fprint", StubSpec{"noop", ""}},
	{"log.", StubSpec{"noop", ""}},
	{"os.", StubSpec{"unsupported", ""}},
	{"encoding/hex.EncodeToString", StubSpec{"intrinsic", "opaque.string"}},
	{"strconv.Itoa", StubSpec{"intrinsic", "fmt.format"}},
	{"strconv.FormatUint", StubSpec{"intrinsic", "fmt.format"}},
	{"strconv.FormatInt", StubSpec{"intrinsic", "fmt.format"}},
	{"strconv.Quote", StubSpec{"intrinsic", "opaque.string"}},
	// canopy environment model (DESIGN §3); a harness can switch any of these back with "real"
	{"google.golang.org/protobuf/proto.Clone", StubSpec{"intrinsic", "proto.Clone"}},
	{"github.com/canopy-network/canopy/lib.Marshal", StubSpec{"intrinsic", "box.Marshal"}},
	{"github.com/canopy-network/canopy/lib.Unmarshal", StubSpec{"intrinsic", "box.Unmarshal"}},
	{"github.com/canopy-network/canopy/lib/crypto.Hash", StubSpec{"intrinsic", "hash32"}},
	{"github.com/canopy-network/canopy/lib/crypto.ShortHash", StubSpec{"intrinsic", "hash20"}},
	{"github.com/canopy-network/canopy/lib/crypto.HashString", StubSpec{"intrinsic", "hash32.string"}},
	{"github.com/canopy-network/canopy/lib/crypto.ShortHashString", StubSpec{"intrinsic", "hash20.string"}},
	{"github.com/canopy-network/canopy/lib.BytesToTruncatedString", StubSpec{"intrinsic", "opaque.string"}},
	{"github.com/canopy-network/canopy/lib.BytesToString", StubSpec{"intrinsic", "ident.b2s"}},
	{"github.com/canopy-network/canopy/lib.StringToBytes", StubSpec{"intrinsic", "ident.s2b"}},
	{"github.com/canopy-network/canopy/lib.MemHash", StubSpec{"intrinsic", "memhash"}},
	{"github.com/canopy-network/canopy/lib.NewAny", StubSpec{"intrinsic", "any.New"}},
	{"github.com/canopy-network/canopy/lib.FromAny", StubSpec{"intrinsic", "any.From"}},
	{"(*github.com/canopy-network/canopy/lib.Block).BytesToBlockHash", StubSpec{"intrinsic", "hash32.err"}},
	{"(*github.com/canopy-network/canopy/lib.CertificateResult).Hash", StubSpec{"intrinsic", "hashdeep32"}},
	{"github.com/canopy-network/canopy/lib.TimeTrack", StubSpec{"noop", ""}},
	{"(*github.com/canopy-network/canopy/lib.Metrics).", StubSpec{"noop", ""}},
}

func (in *Interp) stubFor(name string) (StubSpec, bool) {
	cfg := in.run.cfg
	if s, ok := cfg.Stubs[name]; ok {
		return s, true
	}
	best := -1
	var spec StubSpec
	for p, s := range cfg.StubPrefixes {
		if strings.HasPrefix(name, p) && len(p) > best {
			best = len(p)
			spec = s
		}
	}
	for _, d := range defaultStubs {
		if strings.HasPrefix(name, d.prefix) && len(d.prefix) > best {
			best = len(d.prefix)
			spec = d.spec
		}
	}
	if best >= 0 {
		return spec, true
	}
	return StubSpec{}, false
}

func (in *Interp) tryIntrinsic(name string, fn *ssa.Function, args []Value) (Value, bool) {
	// zz primitives (declared in the harness overlay, any package)
	if strings.HasPrefix(fn.Name(), "zz") {
		if f, ok := zzFuncs[fn.Name()]; ok {
			return f(in, fn, args), true
		}
	}
	if spec, ok := in.stubFor(name); ok {
		switch spec.Kind {
		case "real":
			// fall through to built-in intrinsic or body
		case "noop":
			in.stubLog[name+" [noop]"]++
			return in.zeroResults(fn), true
		case "nondet":
			in.stubLog[name+" [nondet]"]++
			return in.nondetResults(fn, name), true
		case "harness":
			in.stubLog[name+" [harness:"+spec.Arg+"]"]++
			h := in.run.findFunc(spec.Arg, fn.Pkg)
			if h == nil {
				in.unsupported("harness stub not found: " + spec.Arg)
			}
			return in.callFunction(h, args, nil), true
		case "intrinsic":
			f, ok := intrinsics[spec.Arg]
			if !ok {
				in.unsupported("unknown intrinsic " + spec.Arg)
			}
			in.stubLog[name+" [intrinsic:"+spec.Arg+"]"]++
			return f(in, fn, args), true
		case "unsupported":
			in.unsupported("call of " + name + " (declared out of reach)")
		}
	}
	if f, ok := intrinsics[name]; ok {
		in.stubLog[name+" [builtin-model]"]++
		return f(in, fn, args), true
	}
	return nil, false
}

func (in *Interp) zeroResults(fn *ssa.Function) Value {
	res := fn.Signature.Results()
	switch res.Len() {
	case 0:
		return nil
	case 1:
		return in.zero(res.At(0).Type())
	}
	return in.zero(res)
}

// nondetValue builds an arbitrary value of type t (scalars, arrays, structs of those; error
// interfaces become nil-or-opaque-error).
func (in *Interp) nondetValue(t types.Type, name string) Value {
	switch u := t.Underlying().(type) {
	case *types.Basic:
		if isBool(t) {
			return in.fresh(name, BoolSort)
		}
		if ii, ok := basicInfo(t); ok {
			if in.run.cfg.IntMode && ii.w >= 32 {
				v := in.fresh(name, IntSort)
				in.assumeRange(v, ii)
				return v
			}
			return in.fresh(name, BV(ii.w))
		}
	case *types.Struct:
		s := &StructV{f: make([]Value, u.NumFields())}
		for i := 0; i < u.NumFields(); i++ {
			s.f[i] = in.nondetValue(u.Field(i).Type(), name+"."+u.Field(i).Name())
		}
		return s
	case *types.Array:
		a := &ArrayV{e: make([]Value, u.Len())}
		for i := range a.e {
			a.e[i] = in.nondetValue(u.Elem(), fmt.Sprintf("%s[%d]", name, i))
		}
		return a
	case *types.Interface:
		if t.String() == "error" || strings.HasSuffix(t.String(), ".ErrorI") {
			if in.decide(in.fresh(name+".isErr", BoolSort)) {
				return in.opaqueError("nondet error from " + name)
			}
			return &IfaceV{}
		}
	case *types.Slice:
		if bi, ok := basicInfo(u.Elem()); ok && bi.w == 8 {
			n := in.run.cfg.NondetBytes
			return in.symBytes(name, n, true)
		}
	}
	in.unsupported("nondet value of type " + t.String())
	return nil
}

func (in *Interp) assumeRange(v *Term, ii intInfo) {
	if ii.signed {
		in.pc = append(in.pc, IGe(v, IntConstBig(signedVal(pow2(ii.w-1), ii.w))), ILt(v, IntConstBig(pow2(ii.w-1))))
	} else {
		in.pc = append(in.pc, IGe(v, IntConst(0)), ILt(v, IntConstBig(pow2(ii.w))))
	}
}

func (in *Interp) nondetResults(fn *ssa.Function, name string) Value {
	res := fn.Signature.Results()
	short := fn.Name()
	switch res.Len() {
	case 0:
		return nil
	case 1:
		return in.nondetValue(res.At(0).Type(), "stub."+short)
	}
	tv := make(TupleV, res.Len())
	// decide error first so that value results are zero on the error path
	for i := res.Len() - 1; i >= 0; i-- {
		tv[i] = in.nondetValue(res.At(i).Type(), fmt.Sprintf("stub.%s.%d", short, i))
	}
	return tv
}

func (in *Interp) opaqueError(msg string) Value {
	// *errors.errorString{msg}
	if in.run.errorStringT == nil {
		in.unsupported("errors.errorString type not loaded")
	}
	st := in.run.errorStringT
	o := in.newObject(st, &StructV{f: []Value{mkString(msg)}}, "error")
	return &IfaceV{T: types.NewPointer(st), V: &Pointer{obj: o}}
}

func (in *Interp) symBytes(name string, n int, symLen bool) *SliceV {
	arr := &ArrayV{e: make([]Value, n)}
	for i := 0; i < n; i++ {
		arr.e[i] = in.fresh(fmt.Sprintf("%s[%d]", name, i), BV(8))
	}
	o := in.newObject(nil, arr, name)
	s := &SliceV{base: &Pointer{obj: o}, n: goInt(n), cap: n}
	if symLen {
		l := in.fresh(name+".len", BV(64))
		in.pc = append(in.pc, BVSge(l, goInt(0)), BVSle(l, goInt(n)))
		s.n = l
	}
	return s
}

// ---- zz primitives ----

var zzFuncs = map[string]intrinsicFn{}

func argString(in *Interp, v Value) string {
	s, ok := v.(*StringV)
	if !ok {
		in.unsupported("zz: name argument is not a string")
	}
	c, ok := s.concrete()
	if !ok {
		in.unsupported("zz: name argument is not concrete")
	}
	return c
}

func init() {
	bv := func(w int) intrinsicFn {
		return func(in *Interp, fn *ssa.Function, a []Value) Value { return in.fresh(argString(in, a[0]), BV(w)) }
	}
	zzFuncs["zzU8"] = bv(8)
	zzFuncs["zzU16"] = bv(16)
	zzFuncs["zzU32"] = bv(32)
	zzFuncs["zzU64"] = bv(64)
	zzFuncs["zzI32"] = bv(32)
	zzFuncs["zzI64"] = bv(64)
	zzFuncs["zzInt"] = bv(64)
	zzFuncs["zzBool"] = func(in *Interp, fn *ssa.Function, a []Value) Value {
		return in.fresh(argString(in, a[0]), BoolSort)
	}
	zzFuncs["zzN64"] = func(in *Interp, fn *ssa.Function, a []Value) Value {
		v := in.fresh(argString(in, a[0]), IntSort)
		in.assumeRange(v, intInfo{64, false})
		return v
	}
	zzFuncs["zzNInt"] = func(in *Interp, fn *ssa.Function, a []Value) Value {
		v := in.fresh(argString(in, a[0]), IntSort)
		in.assumeRange(v, intInfo{64, true})
		return v
	}
	zzFuncs["zzBytes"] = func(in *Interp, fn *ssa.Function, a []Value) Value {
		n := in.constIdx(a[1].(*Term))
		return in.symBytes(argString(in, a[0]), n, false)
	}
	zzFuncs["zzBytesUpTo"] = func(in *Interp, fn *ssa.Function, a []Value) Value {
		n := in.constIdx(a[1].(*Term))
		return in.symBytes(argString(in, a[0]), n, true)
	}
	zzFuncs["zzAssume"] = func(in *Interp, fn *ssa.Function, a []Value) Value {
		c := a[0].(*Term)
		if c == True {
			return nil
		}
		if c == False || !in.run.feasible(in, c) {
			in.abort("assume", "assumption not satisfiable on this path")
		}
		in.addPC(c)
		return nil
	}
	zzFuncs["zzAssert"] = func(in *Interp, fn *ssa.Function, a []Value) Value {
		in.assertion(argString(in, a[0]), a[1].(*Term))
		return nil
	}
	zzFuncs["zzReach"] = func(in *Interp, fn *ssa.Function, a []Value) Value {
		in.run.reach(in, argString(in, a[0]))
		return nil
	}
	zzFuncs["zzObserve"] = func(in *Interp, fn *ssa.Function, a []Value) Value {
		in.observed = append(in.observed, obsRec{argString(in, a[0]), a[1]})
		return nil
	}
	zzFuncs["zzStop"] = func(in *Interp, fn *ssa.Function, a []Value) Value {
		in.abort("stop", "zzStop")
		return nil
	}
	zzFuncs["zzConcrete"] = func(in *Interp, fn *ssa.Function, a []Value) Value {
		// zzConcrete(v int, lo, hi int) int: fork over the values of v
		t := a[0].(*Term)
		lo, hi := in.constIdx(a[1].(*Term)), in.constIdx(a[2].(*Term))
		k := in.concretize(t, lo, hi)
		if t.sort.K == SInt {
			return IntConst(int64(k))
		}
		return BVConst(t.sort.W, int64(k))
	}
	zzFuncs["zzIsSym"] = func(in *Interp, fn *ssa.Function, a []Value) Value { return True }
	// fork-free boolean connectives for harness-side models and post-conditions
	zzFuncs["zzAnd"] = func(in *Interp, fn *ssa.Function, a []Value) Value { return And(a[0].(*Term), a[1].(*Term)) }
	zzFuncs["zzOr"] = func(in *Interp, fn *ssa.Function, a []Value) Value { return Or(a[0].(*Term), a[1].(*Term)) }
	zzFuncs["zzNot"] = func(in *Interp, fn *ssa.Function, a []Value) Value { return Not(a[0].(*Term)) }
	zzFuncs["zzImplies"] = func(in *Interp, fn *ssa.Function, a []Value) Value { return Implies(a[0].(*Term), a[1].(*Term)) }
	zzFuncs["zzIteU64"] = func(in *Interp, fn *ssa.Function, a []Value) Value {
		m, ok := in.mergeVal(a[0].(*Term), a[1], a[2])
		if !ok {
			in.unsupported("zzIteU64 merge")
		}
		return m
	}
}

func (in *Interp) assertion(id string, c *Term) {
	r := in.run
	if r.cfg.Concrete != nil {
		// translator validation: record the verdict and go on, as the native run does
		r.mu.Lock()
		switch {
		case c == True:
		case c == False:
			r.res.ConcreteFailed = append(r.res.ConcreteFailed, id)
		default:
			r.res.ConcreteNonConcrete = append(r.res.ConcreteNonConcrete, id)
		}
		r.mu.Unlock()
		r.count(id, func(o *Obligation) { o.Instances++ })
		return
	}
	if c == True {
		r.count(id, func(o *Obligation) { o.Instances++; o.Trivial++ })
		return
	}
	res, model := r.checkObligation(in, Not(c), in.nondets)
	switch res {
	case Unsat:
		r.count(id, func(o *Obligation) { o.Instances++; o.Unsat++ })
	case Sat:
		r.count(id, func(o *Obligation) { o.Instances++; o.Sat++ })
		r.recordViolation(in, id, model)
	default:
		r.count(id, func(o *Obligation) { o.Instances++; o.Unknown++ })
		r.inconclusive(fmt.Sprintf("obligation %s: solver returned unknown", id))
	}
	// continue under the asserted condition
	if c == False {
		in.abort("stop", "assertion is false on this whole path")
	}
	if res == Sat {
		if !r.feasible(in, c) {
			in.abort("stop", "assertion fails on the whole path")
		}
	}
	in.addPC(c)
}

// ---- generic intrinsics ----

func init() {
	registerIntrinsic("opaque.string", func(in *Interp, fn *ssa.Function, a []Value) Value {
		if len(a) > 0 {
			if s, ok := a[0].(*StringV); ok {
				if c, ok := s.concrete(); ok {
					return mkString("<" + fn.Name() + ":" + c + ">")
				}
			}
		}
		return mkString("<" + fn.Name() + ">")
	})
	registerIntrinsic("opaque.error", func(in *Interp, fn *ssa.Function, a []Value) Value {
		msg := "<error>"
		if len(a) > 0 {
			if s, ok := a[0].(*StringV); ok {
				if c, ok := s.concrete(); ok {
					msg = c
				}
			}
		}
		return in.opaqueError(msg)
	})
	registerIntrinsic("once.Do", func(in *Interp, fn *ssa.Function, a []Value) Value {
		p := a[0].(*Pointer)
		key := fmt.Sprintf("once:%d:%v", p.obj.id, p.path)
		if in.extra[key] == nil {
			in.extra[key] = true
			in.call(a[1].(*FuncV), nil, nil)
		}
		return nil
	})
	registerIntrinsic("internal/bytealg.Compare", func(in *Interp, fn *ssa.Function, a []Value) Value {
		x, y := in.stringOfBytes(a[0].(*SliceV)), in.stringOfBytes(a[1].(*SliceV))
		return in.strCompare(x, y)
	})
	registerIntrinsic("bytes.Compare", intrinsics["internal/bytealg.Compare"])
	registerIntrinsic("internal/bytealg.CompareString", func(in *Interp, fn *ssa.Function, a []Value) Value {
		return in.strCompare(a[0].(*StringV), a[1].(*StringV))
	})
	registerIntrinsic("strings.Compare", intrinsics["internal/bytealg.CompareString"])
	registerIntrinsic("cmp.Compare[string]", intrinsics["internal/bytealg.CompareString"])
	registerIntrinsic("bytes.Equal", func(in *Interp, fn *ssa.Function, a []Value) Value {
		return in.bytesEq(a[0].(*SliceV), a[1].(*SliceV))
	})
	registerIntrinsic("internal/bytealg.Equal", intrinsics["bytes.Equal"])
	registerIntrinsic("internal/bytealg.IndexByte", func(in *Interp, fn *ssa.Function, a []Value) Value {
		s := in.stringOfBytes(a[0].(*SliceV))
		return in.indexByte(s, a[1].(*Term))
	})
	registerIntrinsic("internal/bytealg.IndexByteString", func(in *Interp, fn *ssa.Function, a []Value) Value {
		return in.indexByte(a[0].(*StringV), a[1].(*Term))
	})
	registerIntrinsic("internal/bytealg.MakeNoZero", func(in *Interp, fn *ssa.Function, a []Value) Value {
		n := in.asIndex(a[0], types.Typ[types.Int])
		return in.makeSliceOf(types.Typ[types.Uint8], n, n)
	})
	// maps.clone (runtime linkname, no body): shallow copy of the map
	registerIntrinsic("maps.clone", func(in *Interp, fn *ssa.Function, a []Value) Value {
		iv, ok := a[0].(*IfaceV)
		if !ok {
			in.unsupported("maps.clone of non-interface")
		}
		m, ok := iv.V.(*MapObj)
		if !ok || m == nil {
			return iv
		}
		in.nextObj++
		c := &MapObj{id: in.nextObj, typ: m.typ}
		for _, e := range m.entries {
			c.entries = append(c.entries, &mapEntry{k: e.k, v: e.v, live: e.live})
		}
		return &IfaceV{T: iv.T, V: c}
	})
	registerIntrinsic("sort.Slice", sortSlice)
	registerIntrinsic("sort.SliceStable", sortSlice)
	registerIntrinsic("errors.Is", func(in *Interp, fn *ssa.Function, a []Value) Value {
		return in.valEq(a[0], a[1])
	})
	registerIntrinsic("math/bits.Len64", func(in *Interp, fn *ssa.Function, a []Value) Value {
		return bitsLen(in, a[0].(*Term), 64)
	})
	registerIntrinsic("math/bits.Len32", func(in *Interp, fn *ssa.Function, a []Value) Value {
		return bitsLen(in, a[0].(*Term), 32)
	})
	registerIntrinsic("math/bits.Len8", func(in *Interp, fn *ssa.Function, a []Value) Value {
		return bitsLen(in, a[0].(*Term), 8)
	})
	registerIntrinsic("math/bits.Len", func(in *Interp, fn *ssa.Function, a []Value) Value {
		return bitsLen(in, a[0].(*Term), 64)
	})
	registerIntrinsic("math/bits.LeadingZeros8", func(in *Interp, fn *ssa.Function, a []Value) Value {
		l := bitsLen(in, a[0].(*Term), 8).(*Term)
		return BVSub(goInt(8), l)
	})
	registerIntrinsic("math/bits.LeadingZeros64", func(in *Interp, fn *ssa.Function, a []Value) Value {
		l := bitsLen(in, a[0].(*Term), 64).(*Term)
		return BVSub(goInt(64), l)
	})
	atomics()
}

func bitsLen(in *Interp, x *Term, w int) Value {
	if x.sort.K != SBV {
		in.unsupported("bits.Len on int-encoded value")
	}
	res := goInt(0)
	for i := 0; i < w; i++ {
		bit := Eq(Extract(x, i, i), BVConst(1, 1))
		res = Ite(bit, goInt(i+1), res)
	}
	return res
}

func (in *Interp) bytesEq(a, b *SliceV) *Term {
	if a.box != nil || b.box != nil {
		return in.boxEq(a, b)
	}
	return strEq(in.stringOfBytes(a), in.stringOfBytes(b))
}

func (in *Interp) strCompare(x, y *StringV) Value {
	lt := in.strLess(x, y)
	eq := strEq(x, y)
	return Ite(eq, goInt(0), Ite(lt, BVConst(64, -1), goInt(1)))
}

func (in *Interp) indexByte(s *StringV, c *Term) Value {
	n := in.strLenConcrete(s)
	res := BVConst(64, -1)
	for i := n - 1; i >= 0; i-- {
		res = Ite(Eq(s.b[i], c), goInt(i), res)
	}
	return res
}

func sortSlice(in *Interp, fn *ssa.Function, a []Value) Value {
	iv := a[0].(*IfaceV)
	s := iv.V.(*SliceV)
	less := a[1].(*FuncV)
	n := in.sliceLenConcrete(s)
	at := func(i int) *Pointer { return s.base.extend(s.off + i) }
	// insertion sort (what pdqsort does below 12 elements; stable)
	if n > 12 {
		in.abort("bound", "sort.Slice of more than 12 elements")
	}
	for i := 1; i < n; i++ {
		for j := i; j > 0; j-- {
			r := in.call(less, []Value{goInt(j), goInt(j - 1)}, nil).(*Term)
			if !in.decide(r) {
				break
			}
			x, y := in.load(at(j)), in.load(at(j-1))
			in.store(at(j), y)
			in.store(at(j-1), x)
		}
	}
	return nil
}

func atomics() {
	load := func(in *Interp, fn *ssa.Function, a []Value) Value { return in.loadSym(a[0].(*Pointer)) }
	store := func(in *Interp, fn *ssa.Function, a []Value) Value { in.storeSym(a[0].(*Pointer), a[1]); return nil }
	add := func(in *Interp, fn *ssa.Function, a []Value) Value {
		p := a[0].(*Pointer)
		t := fn.Signature.Params().At(1).Type()
		nv := in.binop(token.ADD, t, in.loadSym(p), a[1], t)
		in.storeSym(p, nv)
		return nv
	}
	swap := func(in *Interp, fn *ssa.Function, a []Value) Value {
		p := a[0].(*Pointer)
		old := in.loadSym(p)
		in.storeSym(p, a[1])
		return old
	}
	cas := func(in *Interp, fn *ssa.Function, a []Value) Value {
		p := a[0].(*Pointer)
		old := in.loadSym(p)
		if in.decide(in.valEq(old, a[1])) {
			in.storeSym(p, a[2])
			return True
		}
		return False
	}
	for _, t := range []string{"Int32", "Int64", "Uint32", "Uint64", "Uintptr", "Pointer"} {
		registerIntrinsic("sync/atomic.Load"+t, load)
		registerIntrinsic("sync/atomic.Store"+t, store)
		registerIntrinsic("sync/atomic.Swap"+t, swap)
		registerIntrinsic("sync/atomic.CompareAndSwap"+t, cas)
		if t != "Pointer" {
			registerIntrinsic("sync/atomic.Add"+t, add)
		}
	}
	for _, t := range []string{"", "8", "32", "64", "p", "Uint8", "Uint", "Uintptr", "Int32", "Int64", "Acq", "Acq64", "Acquintptr"} {
		registerIntrinsic("internal/runtime/atomic.Load"+t, load)
		registerIntrinsic("internal/runtime/atomic.Store"+t, store)
	}
}
