package main

import (
	"fmt"
	"go/types"
	"math/big"
	"os"
	"runtime/debug"
	"sort"
	"strings"
	"sync"
	"sync/atomic"
	"time"

	"golang.org/x/tools/go/ssa"
)

type Config struct {
	Entry            string
	Unwind           int
	MaxDepth         int
	MaxSteps         int
	MaxAlloc         int
	MaxConcreteAlloc int
	NondetBytes      int
	IntMode          bool
	MapOrder         string // "", "sorted", "all"
	GoPolicy         string // "", "skip", "inline"
	PanicPolicy      string // "inconclusive" | "ignore" | "violation:<id>"
	Stubs            map[string]StubSpec
	StubPrefixes     map[string]StubSpec
	NoInit           map[string]bool
	MaxPaths         int
	TimeBudget       time.Duration
	FeasTimeout      time.Duration
	ObTimeout        time.Duration
	Solvers          []string
	Params           map[string]int
	Tier             string
	Expect           map[string]string // obligation id -> "sat" (known finding expected) - informational
	NoIfConv         bool
	InitBudget       int
	NoInitCache      bool
	Workers          int
	// Concrete: translator validation mode. Every zz nondeterministic value is the constant named
	// here (missing names are 0), so the entry runs on one concrete path like the native replay does.
	Concrete map[string]*big.Int
}

type Obligation struct {
	ID        string `json:"id"`
	Instances int    `json:"instances"`
	Trivial   int    `json:"trivially_true"`
	Unsat     int    `json:"unsat"`
	Sat       int    `json:"sat"`
	Unknown   int    `json:"unknown"`
}

type Violation struct {
	Obligation string            `json:"obligation"`
	Model      map[string]string `json:"model"`
	Path       int               `json:"path"`
	Note       string            `json:"note,omitempty"`
	Stack      []string          `json:"stack,omitempty"`
	Observed   map[string]string `json:"observed,omitempty"`
}

type ReachRec struct {
	ID    string            `json:"id"`
	Paths int               `json:"paths"`
	Model map[string]string `json:"witness,omitempty"`
}

type EntryResult struct {
	Entry        string             `json:"entry"`
	Package      string             `json:"package"`
	Mode         string             `json:"mode"`
	Options      map[string]string  `json:"options"`
	Paths        int                `json:"paths"`
	PathsDone    int                `json:"paths_completed"`
	Aborted      map[string]int     `json:"paths_aborted"`
	AbortSamples map[string]string  `json:"abort_samples"`
	Obligations  []*Obligation      `json:"obligations"`
	Reach        []*ReachRec        `json:"reach"`
	ReachMissing []string           `json:"reach_missing"`
	Violations   []*Violation       `json:"violations"`
	Inconclusive []string           `json:"inconclusive"`
	FuncsReal    map[string]int     `json:"functions_executed"`
	FuncsStubbed map[string]int     `json:"functions_stubbed"`
	Assumptions  []string           `json:"assumptions"`
	Queries      map[string]int     `json:"queries"`
	SolverTimeS  map[string]float64 `json:"solver_time_s"`
	SolverErrors []string           `json:"solver_errors"`
	WallS        float64            `json:"wall_s"`
	Steps        int                `json:"ssa_instructions_executed"`
	Status       string             `json:"status"` // ok | violation | inconclusive | vacuous
	Panics       map[string]int     `json:"panics"`
	Events       map[string]int     `json:"events"`
	Bounds       map[string]int     `json:"bounds"`
	EngineError  string             `json:"engine_error,omitempty"`
	Workers      int                `json:"workers"`
	// concrete (translator validation) mode only
	ConcreteFailed      []string `json:"concrete_failed,omitempty"`
	ConcreteNonConcrete []string `json:"concrete_nonconcrete,omitempty"`
}

// worker: one explorer thread with its own solver processes. Paths are independent given their
// decision prefix, so workers share only the work list and the result tables (under Run.mu).
type worker struct {
	id   int
	feas *Solver
	obs  []*Solver
}

type Run struct {
	cfg          *Config
	prog         *ssa.Program
	pkg          *ssa.Package
	entry        *ssa.Function
	mu           sync.Mutex
	cond         *sync.Cond
	active       int
	stopped      bool
	workers      []*worker
	work         [][]bool
	res          *EntryResult
	obMap        map[string]*Obligation
	reachMap     map[string]*ReachRec
	expectReach  []string
	errorStringT types.Type
	bigIntT      types.Type
	pathNo       int
	incSet       map[string]bool
	violSeen     map[string]int
	feasQ        int64
	feasUnknown  int64
	start        time.Time
	funcIndex    map[string]*ssa.Function
	ifconv       int64
	lastLog      time.Time
	initSnap     map[*ssa.Package]*pkgSnap
}

func (r *Run) push(p []bool) {
	r.mu.Lock()
	r.work = append(r.work, p)
	r.mu.Unlock()
	r.cond.Signal()
}

func (r *Run) feasible(in *Interp, c *Term) bool {
	if c == True {
		return true
	}
	if c == False {
		return false
	}
	atomic.AddInt64(&r.feasQ, 1)
	res, _ := in.w.feas.Check(in.pc, c, nil)
	if res == Unknown {
		atomic.AddInt64(&r.feasUnknown, 1)
		return true
	}
	return res == Sat
}

func (r *Run) obligation(id string) *Obligation {
	r.mu.Lock()
	defer r.mu.Unlock()
	return r.obligationLocked(id)
}

func (r *Run) obligationLocked(id string) *Obligation {
	if o, ok := r.obMap[id]; ok {
		return o
	}
	o := &Obligation{ID: id}
	r.obMap[id] = o
	r.res.Obligations = append(r.res.Obligations, o)
	return o
}

// count updates an obligation's counters under the lock.
func (r *Run) count(id string, f func(o *Obligation)) {
	r.mu.Lock()
	f(r.obligationLocked(id))
	r.mu.Unlock()
}

func (r *Run) inconclusive(msg string) {
	r.mu.Lock()
	r.inconclusiveLocked(msg)
	r.mu.Unlock()
}

func (r *Run) inconclusiveLocked(msg string) {
	if !r.incSet[msg] {
		r.incSet[msg] = true
		r.res.Inconclusive = append(r.res.Inconclusive, msg)
	}
}

// checkObligation asks every configured solver; first definite answer wins, contradictions are
// inconclusive.
func (r *Run) checkObligation(in *Interp, neg *Term, vars []*Term) (Result, map[string]*big.Int) {
	obs := in.w.obs
	type ans struct {
		i     int
		res   Result
		model map[string]*big.Int
	}
	pcCopy := append([]*Term(nil), in.pc...)
	ch := make(chan ans, len(obs))
	for i, s := range obs {
		go func(i int, s *Solver) {
			res, m := s.Check(pcCopy, neg, vars)
			ch <- ans{i, res, m}
		}(i, s)
	}
	var first *ans
	got := 0
	results := make([]Result, len(obs))
	for i := range results {
		results[i] = Unknown
	}
	timeout := time.After(r.cfg.ObTimeout + 30*time.Second)
	for got < len(obs) {
		var grace <-chan time.Time
		if first != nil {
			grace = time.After(500 * time.Millisecond)
		}
		select {
		case a := <-ch:
			got++
			results[a.i] = a.res
			if a.res != Unknown && first == nil {
				aa := a
				first = &aa
			}
		case <-grace:
			goto done
		case <-timeout:
			goto done
		}
	}
done:
	// any solver still running is killed (its goroutine then returns Unknown)
	if got < len(obs) {
		for i, s := range obs {
			if results[i] == Unknown {
				s.interrupt()
			}
		}
		for got < len(obs) {
			a := <-ch
			got++
			if a.res != Unknown {
				results[a.i] = a.res
			}
		}
	}
	if first == nil {
		return Unknown, nil
	}
	for _, x := range results {
		if x != Unknown && x != first.res {
			r.inconclusive("solvers disagree on an obligation query")
			return Unknown, nil
		}
	}
	return first.res, first.model
}

func modelStrings(m map[string]*big.Int) map[string]string {
	out := map[string]string{}
	for k, v := range m {
		// strip the sort suffix ":bv64" etc.
		if i := strings.LastIndex(k, ":"); i > 0 {
			k = k[:i]
		}
		out[k] = v.String()
	}
	return out
}

func (r *Run) recordViolation(in *Interp, id string, model map[string]*big.Int) {
	r.mu.Lock()
	defer r.mu.Unlock()
	r.violSeen[id]++
	if r.violSeen[id] > 3 {
		return
	}
	v := &Violation{Obligation: id, Model: modelStrings(model), Path: in.pathNo}
	if len(in.observed) > 0 && model != nil {
		v.Observed = map[string]string{}
		memo := map[int]*big.Int{}
		for _, o := range in.observed {
			v.Observed[o.Name] = describeUnder(o.Val, model, memo)
		}
	}
	r.res.Violations = append(r.res.Violations, v)
}

func describeUnder(v Value, m map[string]*big.Int, memo map[int]*big.Int) string {
	switch x := v.(type) {
	case *Term:
		return Eval(x, m, memo).String()
	case *IfaceV:
		if x.T == nil {
			return "nil"
		}
		return typeKey(x.T) + ":" + describeUnder(x.V, m, memo)
	case *StructV:
		var parts []string
		for _, f := range x.f {
			parts = append(parts, describeUnder(f, m, memo))
		}
		return "{" + strings.Join(parts, " ") + "}"
	case *ArrayV:
		var parts []string
		for _, f := range x.e {
			parts = append(parts, describeUnder(f, m, memo))
		}
		return "[" + strings.Join(parts, " ") + "]"
	case *StringV:
		n := len(x.b)
		if x.n != nil {
			n = int(Eval(x.n, m, memo).Int64())
		}
		bs := make([]byte, 0, n)
		for i := 0; i < n && i < len(x.b); i++ {
			bs = append(bs, byte(Eval(x.b[i], m, memo).Uint64()))
		}
		return fmt.Sprintf("%q", bs)
	}
	return describe(v)
}

func (r *Run) reach(in *Interp, id string) {
	r.mu.Lock()
	rr, ok := r.reachMap[id]
	if !ok {
		rr = &ReachRec{ID: id}
		r.reachMap[id] = rr
		r.res.Reach = append(r.res.Reach, rr)
	}
	rr.Paths++
	r.mu.Unlock()
	if !ok {
		// witness model (outside the lock: a solver call)
		res, m := in.w.obs[0].Check(append([]*Term(nil), in.pc...), nil, in.nondets)
		if res == Sat {
			r.mu.Lock()
			rr.Model = modelStrings(m)
			r.mu.Unlock()
		}
	}
}

func (r *Run) findFunc(name string, pkg *ssa.Package) *ssa.Function {
	if pkg != nil {
		if f := pkg.Func(name); f != nil {
			return f
		}
	}
	if f := r.pkg.Func(name); f != nil {
		return f
	}
	return r.funcIndex[name]
}

func (r *Run) newInterp(w *worker, prefix []bool, pathNo int) *Interp {
	return &Interp{
		run: r, w: w, pathNo: pathNo, prog: r.prog, prefix: prefix,
		globals: map[*ssa.Global]*Object{}, pkgInit: map[*ssa.Package]bool{},
		nondetCnt: map[string]int{}, ufCalls: map[string][]ufCall{},
		callLog: map[string]int{}, stubLog: map[string]int{},
		extra: map[string]interface{}{}, symRefs: map[*Pointer]symRef{}, globalOf: map[*Object]*ssa.Global{},
	}
}

func (r *Run) runPath(w *worker, prefix []bool) {
	r.mu.Lock()
	r.pathNo++
	pathNo := r.pathNo
	r.res.Paths++
	r.mu.Unlock()
	in := r.newInterp(w, prefix, pathNo)
	defer func() {
		rec := recover()
		// a panicking path may need a model: ask before taking the lock
		var panicModel map[string]*big.Int
		panicSat := false
		if gp, ok := rec.(*goPanicV); ok && strings.HasPrefix(r.cfg.PanicPolicy, "violation:") {
			_ = gp
			res, m := w.obs[0].Check(append([]*Term(nil), in.pc...), nil, in.nondets)
			panicSat, panicModel = res == Sat, m
		}
		r.mu.Lock()
		defer r.mu.Unlock()
		r.res.Steps += in.steps
		for k, v := range in.callLog {
			r.res.FuncsReal[k] += v
		}
		for k, v := range in.stubLog {
			r.res.FuncsStubbed[k] += v
		}
		for _, e := range in.events {
			r.res.Events[e]++
		}
		if rec != nil {
			switch x := rec.(type) {
			case *pathAbort:
				r.res.Aborted[x.kind]++
				if len(r.res.AbortSamples) < 40 {
					r.res.AbortSamples[x.kind+": "+x.msg] = fmt.Sprintf("path %d", pathNo)
				}
				switch x.kind {
				case "unsupported", "unwind", "budget":
					r.inconclusiveLocked(x.kind + ": " + x.msg)
				}
			case *goPanicV:
				loc := ""
				if len(x.stack) > 0 {
					loc = " at " + x.stack[0]
				}
				key := x.msg + loc
				r.res.Panics[key]++
				pol := r.cfg.PanicPolicy
				switch {
				case strings.HasPrefix(pol, "violation:"):
					id := strings.TrimPrefix(pol, "violation:")
					ob := r.obligationLocked(id)
					ob.Instances++
					ob.Sat++
					if panicSat {
						r.violSeen[id]++
						if r.violSeen[id] <= 3 {
							r.res.Violations = append(r.res.Violations, &Violation{Obligation: id, Model: modelStrings(panicModel), Path: pathNo, Note: "un-recovered panic: " + x.msg, Stack: x.stack})
						}
					} else {
						r.inconclusiveLocked("panic path without model: " + key)
					}
				case pol == "ignore":
				default:
					r.inconclusiveLocked("un-recovered panic: " + key)
				}
			default:
				r.res.EngineError = fmt.Sprintf("%v\n%s", rec, debug.Stack())
				r.inconclusiveLocked("engine error: " + fmt.Sprint(rec))
				r.work = nil
				r.stopped = true
			}
			return
		}
		r.res.PathsDone++
		// a completed path discharges one instance of the panic-freedom obligation
		if strings.HasPrefix(r.cfg.PanicPolicy, "violation:") {
			ob := r.obligationLocked(strings.TrimPrefix(r.cfg.PanicPolicy, "violation:"))
			ob.Instances++
			ob.Unsat++
		}
	}()
	in.callSSA(r.entry, nil, nil, false)
}

// workerLoop pulls decision prefixes until the work list is empty and nobody is still producing.
func (r *Run) workerLoop(w *worker) {
	for {
		r.mu.Lock()
		for len(r.work) == 0 && r.active > 0 && !r.stopped {
			r.cond.Wait()
		}
		if r.stopped || (len(r.work) == 0 && r.active == 0) {
			r.mu.Unlock()
			r.cond.Broadcast()
			return
		}
		if r.cfg.MaxPaths > 0 && r.res.Paths >= r.cfg.MaxPaths {
			r.inconclusiveLocked(fmt.Sprintf("path budget %d exhausted with %d prefixes pending", r.cfg.MaxPaths, len(r.work)))
			r.stopped = true
			r.mu.Unlock()
			r.cond.Broadcast()
			return
		}
		if r.cfg.TimeBudget > 0 && time.Since(r.start) > r.cfg.TimeBudget {
			r.inconclusiveLocked(fmt.Sprintf("time budget %s exhausted with %d prefixes pending", r.cfg.TimeBudget, len(r.work)))
			r.stopped = true
			r.mu.Unlock()
			r.cond.Broadcast()
			return
		}
		p := r.work[len(r.work)-1]
		r.work = r.work[:len(r.work)-1]
		r.active++
		if time.Since(r.lastLog) > 15*time.Second {
			r.lastLog = time.Now()
			fmt.Fprintf(os.Stderr, "  .. %s: %d paths (%d done), %d pending, %d active, %d feas queries, %.0fs\n", r.cfg.Entry, r.res.Paths, r.res.PathsDone, len(r.work), r.active, atomic.LoadInt64(&r.feasQ), time.Since(r.start).Seconds())
		}
		r.mu.Unlock()
		r.runPath(w, p)
		r.mu.Lock()
		r.active--
		r.mu.Unlock()
		r.cond.Broadcast()
	}
}

func (r *Run) Execute() *EntryResult {
	r.start = time.Now()
	r.lastLog = time.Now()
	r.cond = sync.NewCond(&r.mu)
	r.work = [][]bool{nil}
	n := r.cfg.Workers
	if n < 1 {
		n = 1
	}
	var wg sync.WaitGroup
	for i := 0; i < n; i++ {
		w := &worker{id: i, feas: NewSolver("z3new", r.cfg.FeasTimeout)}
		for _, sn := range r.cfg.Solvers {
			w.obs = append(w.obs, NewSolver(sn, r.cfg.ObTimeout))
		}
		r.workers = append(r.workers, w)
		wg.Add(1)
		go func(w *worker) {
			defer wg.Done()
			r.workerLoop(w)
		}(w)
	}
	wg.Wait()
	res := r.res
	res.Workers = n
	for _, id := range r.expectReach {
		if _, ok := r.reachMap[id]; !ok {
			res.ReachMissing = append(res.ReachMissing, id)
		}
	}
	sort.Strings(res.ReachMissing)
	res.Queries = map[string]int{"feasibility": int(r.feasQ), "feasibility_unknown": int(r.feasUnknown), "branches_if_converted": int(r.ifconv)}
	res.SolverTimeS = map[string]float64{}
	for _, w := range r.workers {
		res.SolverTimeS[w.feas.name+"(feas)"] += w.feas.Time.Seconds()
		res.SolverErrors = append(res.SolverErrors, w.feas.Errors...)
		for _, s := range w.obs {
			res.Queries["obligation:"+s.name] += s.Queries
			res.SolverTimeS[s.name] += s.Time.Seconds()
			res.SolverErrors = append(res.SolverErrors, s.Errors...)
			s.Close()
		}
		w.feas.Close()
	}
	if len(res.SolverErrors) > 0 {
		r.inconclusive("solver error lines present")
	}
	res.WallS = time.Since(r.start).Seconds()
	switch {
	case len(res.Violations) > 0:
		res.Status = "violation"
	case len(res.Inconclusive) > 0:
		res.Status = "inconclusive"
	case len(res.ReachMissing) > 0:
		res.Status = "vacuous"
	default:
		res.Status = "ok"
	}
	for _, o := range res.Obligations {
		if o.Unknown > 0 && res.Status == "ok" {
			res.Status = "inconclusive"
		}
	}
	return res
}

func (s *Solver) interrupt() {
	if s.cmd != nil && s.cmd.Process != nil {
		s.interrupted = true
		s.cmd.Process.Kill()
	}
}

func fatalf(f string, a ...interface{}) {
	fmt.Fprintf(os.Stderr, f+"\n", a...)
	os.Exit(2)
}
