package main

// Package-initialiser cache. Package init is concrete and deterministic, so it is executed once per
// run; the resulting global state is kept as a pristine object graph and deep-copied into every
// later path (paths mutate globals, the pristine copy is never handed out).

import (
	"golang.org/x/tools/go/ssa"
)

type pkgSnap struct {
	globals map[*ssa.Global]*Object // pristine objects, one per global of the package
}

const foreignMark = "@foreign-global"

// graphCopy deep-copies a value graph. seen maps source objects to their copies (identity
// preserving); hook, when non-nil, may redirect a pointer's object (returns nil to copy normally).
func (in *Interp) graphCopy(v Value, seen map[*Object]*Object, maps map[*MapObj]*MapObj, hook func(o *Object) *Object, depth int) Value {
	if depth > 4000 {
		panic("graphCopy: object graph too deep")
	}
	switch x := v.(type) {
	case *Pointer:
		if x == nil {
			return x
		}
		return &Pointer{obj: in.copyObj(x.obj, seen, maps, hook, depth), path: x.path}
	case *StructV:
		n := &StructV{f: make([]Value, len(x.f))}
		for i, f := range x.f {
			n.f[i] = in.graphCopy(f, seen, maps, hook, depth+1)
		}
		return n
	case *ArrayV:
		n := &ArrayV{e: make([]Value, len(x.e))}
		for i, f := range x.e {
			n.e[i] = in.graphCopy(f, seen, maps, hook, depth+1)
		}
		return n
	case TupleV:
		n := make(TupleV, len(x))
		for i, f := range x {
			n[i] = in.graphCopy(f, seen, maps, hook, depth+1)
		}
		return n
	case *SliceV:
		if x.base == nil {
			return x
		}
		nb := in.graphCopy(x.base, seen, maps, hook, depth+1).(*Pointer)
		return &SliceV{base: nb, off: x.off, n: x.n, cap: x.cap, box: x.box}
	case *MapObj:
		if x == nil {
			return x
		}
		if m, ok := maps[x]; ok {
			return m
		}
		in.nextObj++
		m := &MapObj{id: in.nextObj, typ: x.typ}
		maps[x] = m
		for _, e := range x.entries {
			m.entries = append(m.entries, &mapEntry{k: in.graphCopy(e.k, seen, maps, hook, depth+1), v: in.graphCopy(e.v, seen, maps, hook, depth+1)})
		}
		return m
	case *IfaceV:
		if x.T == nil {
			return x
		}
		return &IfaceV{T: x.T, V: in.graphCopy(x.V, seen, maps, hook, depth+1)}
	case *FuncV:
		if x == nil || len(x.Env) == 0 {
			return x
		}
		n := &FuncV{Fn: x.Fn, Builtin: x.Builtin, Native: x.Native, name: x.name, Env: make([]Value, len(x.Env))}
		for i, e := range x.Env {
			n.Env[i] = in.graphCopy(e, seen, maps, hook, depth+1)
		}
		return n
	}
	return v
}

func (in *Interp) copyObj(o *Object, seen map[*Object]*Object, maps map[*MapObj]*MapObj, hook func(o *Object) *Object, depth int) *Object {
	if c, ok := seen[o]; ok {
		return c
	}
	if hook != nil {
		if r := hook(o); r != nil {
			seen[o] = r
			return r
		}
	}
	in.nextObj++
	c := &Object{id: in.nextObj, typ: o.typ, name: o.name}
	seen[o] = c
	c.v = in.graphCopy(o.v, seen, maps, hook, depth+1)
	return c
}

// snapshotPackage stores the pristine state of pkg's globals right after its initialiser ran.
func (in *Interp) snapshotPackage(pkg *ssa.Package) {
	r := in.run
	defer func() {
		if rec := recover(); rec != nil {
			if _, isAbort := rec.(*pathAbort); isAbort {
				panic(rec)
			}
			// could not snapshot (too deep etc.): simply do not cache this package
			r.mu.Lock()
			delete(r.initSnap, pkg)
			r.mu.Unlock()
		}
	}()
	snap := &pkgSnap{globals: map[*ssa.Global]*Object{}}
	seen := map[*Object]*Object{}
	maps := map[*MapObj]*MapObj{}
	var own []*ssa.Global
	for _, m := range pkg.Members {
		if g, ok := m.(*ssa.Global); ok {
			if o := in.globals[g]; o != nil {
				c := &Object{id: -1, typ: o.typ, name: o.name}
				seen[o] = c
				snap.globals[g] = c
				own = append(own, g)
			}
		}
	}
	hook := func(o *Object) *Object {
		if g, ok := in.globalOf[o]; ok && g.Pkg != pkg {
			return &Object{id: -2, name: foreignMark, v: g}
		}
		return nil
	}
	for _, g := range own {
		snap.globals[g].v = in.graphCopy(in.globals[g].v, seen, maps, hook, 0)
	}
	r.mu.Lock()
	if r.initSnap[pkg] == nil {
		r.initSnap[pkg] = snap
	}
	r.mu.Unlock()
}

// restorePackage instantiates a fresh copy of the pristine state for this path.
func (in *Interp) restorePackage(pkg *ssa.Package, snap *pkgSnap) {
	seen := map[*Object]*Object{}
	maps := map[*MapObj]*MapObj{}
	for g, so := range snap.globals {
		o := in.globals[g]
		if o == nil {
			o = in.newObject(so.typ, nil, so.name)
			in.globals[g] = o
			in.globalOf[o] = g
		}
		seen[so] = o
	}
	hook := func(o *Object) *Object {
		if o.name == foreignMark {
			g := o.v.(*ssa.Global)
			return in.global(g).obj
		}
		return nil
	}
	for g, so := range snap.globals {
		in.globals[g].v = in.graphCopy(so.v, seen, maps, hook, 0)
	}
}
