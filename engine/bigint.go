package main

// math/big.Int as an unbounded SMT Int (its true semantics); DESIGN §3.

import (
	"fmt"
	"go/types"

	"golang.org/x/tools/go/ssa"
)

func bigKey(p *Pointer) string { return fmt.Sprintf("big:%d:%v", p.obj.id, p.path) }

func (in *Interp) bigGet(v Value) *Term {
	p, ok := v.(*Pointer)
	if !ok || p == nil {
		in.goPanic("nil *big.Int")
	}
	if t, ok := in.extra[bigKey(p)].(*Term); ok {
		return t
	}
	return IntConst(0)
}

func (in *Interp) bigSet(v Value, t *Term) Value {
	p, ok := v.(*Pointer)
	if !ok || p == nil {
		in.goPanic("nil *big.Int")
	}
	in.extra[bigKey(p)] = t
	return p
}

func (in *Interp) bigNew(t *Term) Value {
	if in.run.bigIntT == nil {
		in.unsupported("math/big not loaded")
	}
	o := in.newObject(in.run.bigIntT, in.zero(in.run.bigIntT), "big.Int")
	p := &Pointer{obj: o}
	in.extra[bigKey(p)] = t
	return p
}

func intAbs(t *Term) *Term { return Ite(ILt(t, IntConst(0)), ISub(IntConst(0), t), t) }

// truncated quotient / remainder from Euclidean div/mod
func intQuoRem(x, y *Term) (*Term, *Term) {
	ax, ay := intAbs(x), intAbs(y)
	q := IDiv(ax, ay)
	r := IMod(ax, ay)
	neg := Not(Eq(ILt(x, IntConst(0)), ILt(y, IntConst(0))))
	return Ite(neg, ISub(IntConst(0), q), q), Ite(ILt(x, IntConst(0)), ISub(IntConst(0), r), r)
}

func init() {
	reg := func(name string, f intrinsicFn) { registerIntrinsic(name, f) }
	recv := func(a []Value) Value { return a[0] }
	reg("math/big.NewInt", func(in *Interp, fn *ssa.Function, a []Value) Value {
		return in.bigNew(toInt(a[0].(*Term), true))
	})
	reg("(*math/big.Int).SetUint64", func(in *Interp, fn *ssa.Function, a []Value) Value {
		return in.bigSet(recv(a), toInt(a[1].(*Term), false))
	})
	reg("(*math/big.Int).SetInt64", func(in *Interp, fn *ssa.Function, a []Value) Value {
		return in.bigSet(recv(a), toInt(a[1].(*Term), true))
	})
	reg("(*math/big.Int).Set", func(in *Interp, fn *ssa.Function, a []Value) Value {
		return in.bigSet(recv(a), in.bigGet(a[1]))
	})
	bin := func(f func(in *Interp, x, y *Term) *Term) intrinsicFn {
		return func(in *Interp, fn *ssa.Function, a []Value) Value {
			return in.bigSet(recv(a), f(in, in.bigGet(a[1]), in.bigGet(a[2])))
		}
	}
	reg("(*math/big.Int).Add", bin(func(in *Interp, x, y *Term) *Term { return IAdd(x, y) }))
	reg("(*math/big.Int).Sub", bin(func(in *Interp, x, y *Term) *Term { return ISub(x, y) }))
	reg("(*math/big.Int).Mul", bin(func(in *Interp, x, y *Term) *Term { return IMul(x, y) }))
	reg("(*math/big.Int).Div", bin(func(in *Interp, x, y *Term) *Term {
		in.branchPanic(Eq(y, IntConst(0)), "division by zero")
		return IDiv(x, y) // Euclidean, as big.Int.Div
	}))
	reg("(*math/big.Int).Mod", bin(func(in *Interp, x, y *Term) *Term {
		in.branchPanic(Eq(y, IntConst(0)), "division by zero")
		return IMod(x, y)
	}))
	reg("(*math/big.Int).Quo", bin(func(in *Interp, x, y *Term) *Term {
		in.branchPanic(Eq(y, IntConst(0)), "division by zero")
		q, _ := intQuoRem(x, y)
		return q
	}))
	reg("(*math/big.Int).Rem", bin(func(in *Interp, x, y *Term) *Term {
		in.branchPanic(Eq(y, IntConst(0)), "division by zero")
		_, r := intQuoRem(x, y)
		return r
	}))
	reg("(*math/big.Int).Neg", func(in *Interp, fn *ssa.Function, a []Value) Value {
		return in.bigSet(recv(a), ISub(IntConst(0), in.bigGet(a[1])))
	})
	reg("(*math/big.Int).Abs", func(in *Interp, fn *ssa.Function, a []Value) Value {
		return in.bigSet(recv(a), intAbs(in.bigGet(a[1])))
	})
	reg("(*math/big.Int).Cmp", func(in *Interp, fn *ssa.Function, a []Value) Value {
		x, y := in.bigGet(a[0]), in.bigGet(a[1])
		return Ite(ILt(x, y), BVConst(64, -1), Ite(Eq(x, y), goInt(0), goInt(1)))
	})
	reg("(*math/big.Int).CmpAbs", func(in *Interp, fn *ssa.Function, a []Value) Value {
		x, y := intAbs(in.bigGet(a[0])), intAbs(in.bigGet(a[1]))
		return Ite(ILt(x, y), BVConst(64, -1), Ite(Eq(x, y), goInt(0), goInt(1)))
	})
	reg("(*math/big.Int).Sign", func(in *Interp, fn *ssa.Function, a []Value) Value {
		x := in.bigGet(a[0])
		return Ite(ILt(x, IntConst(0)), BVConst(64, -1), Ite(Eq(x, IntConst(0)), goInt(0), goInt(1)))
	})
	reg("(*math/big.Int).IsUint64", func(in *Interp, fn *ssa.Function, a []Value) Value {
		x := in.bigGet(a[0])
		return And(IGe(x, IntConst(0)), ILt(x, IntConstBig(pow2(64))))
	})
	reg("(*math/big.Int).IsInt64", func(in *Interp, fn *ssa.Function, a []Value) Value {
		x := in.bigGet(a[0])
		return And(IGe(x, IntConstBig(signedVal(pow2(63), 64))), ILt(x, IntConstBig(pow2(63))))
	})
	reg("(*math/big.Int).Uint64", func(in *Interp, fn *ssa.Function, a []Value) Value {
		// low 64 bits of |x| (undefined in Go docs if it does not fit; the implementation returns the low word)
		return IMod(intAbs(in.bigGet(a[0])), IntConstBig(pow2(64)))
	})
	reg("(*math/big.Int).Int64", func(in *Interp, fn *ssa.Function, a []Value) Value {
		return wrapS(in.bigGet(a[0]), 64)
	})
	reg("(*math/big.Int).Sqrt", func(in *Interp, fn *ssa.Function, a []Value) Value {
		x := in.bigGet(a[1])
		in.branchPanic(ILt(x, IntConst(0)), "square root of negative number")
		if x.IsConst() && x.c.Sign() == 0 {
			return in.bigSet(recv(a), IntConst(0))
		}
		r := in.fresh("zz.bigsqrt", IntSort)
		r1 := IAdd(r, IntConst(1))
		in.pc = append(in.pc, IGe(r, IntConst(0)), ILe(IMul(r, r), x), IGt(IMul(r1, r1), x))
		return in.bigSet(recv(a), r)
	})
	reg("(*math/big.Int).Lsh", func(in *Interp, fn *ssa.Function, a []Value) Value {
		n := a[2].(*Term)
		if !n.IsConst() {
			in.unsupported("big.Int.Lsh by symbolic amount")
		}
		return in.bigSet(recv(a), IMul(in.bigGet(a[1]), IntConstBig(pow2(int(n.c.Int64())))))
	})
	reg("(*math/big.Int).Rsh", func(in *Interp, fn *ssa.Function, a []Value) Value {
		n := a[2].(*Term)
		if !n.IsConst() {
			in.unsupported("big.Int.Rsh by symbolic amount")
		}
		return in.bigSet(recv(a), IDiv(in.bigGet(a[1]), IntConstBig(pow2(int(n.c.Int64())))))
	})
	reg("(*math/big.Int).String", func(in *Interp, fn *ssa.Function, a []Value) Value { return mkString("<big>") })
	reg("(*math/big.Int).BitLen", func(in *Interp, fn *ssa.Function, a []Value) Value {
		x := intAbs(in.bigGet(a[0]))
		res := Value(goInt(0))
		r := res.(*Term)
		for i := 0; i < 130; i++ {
			r = Ite(IGe(x, IntConstBig(pow2(i))), goInt(i+1), r)
		}
		return r
	})
	// math/bits wide arithmetic on Int-encoded operands (bit-vector operands run the real bodies)
	reg("math/bits.Add64", func(in *Interp, fn *ssa.Function, a []Value) Value {
		x, y, c := a[0].(*Term), a[1].(*Term), a[2].(*Term)
		if isIntSorted(x) || isIntSorted(y) || isIntSorted(c) {
			s := IAdd(IAdd(toInt(x, false), toInt(y, false)), toInt(c, false))
			m := IntConstBig(pow2(64))
			return TupleV{IMod(s, m), IDiv(s, m)}
		}
		xs, ys, cs := ZeroExt(x, 65), ZeroExt(y, 65), ZeroExt(c, 65)
		s := BVAdd(BVAdd(xs, ys), cs)
		return TupleV{Extract(s, 63, 0), ZeroExt(Extract(s, 64, 64), 64)}
	})
	reg("math/bits.Div64", func(in *Interp, fn *ssa.Function, a []Value) Value {
		hi, lo, y := a[0].(*Term), a[1].(*Term), a[2].(*Term)
		if isIntSorted(hi) || isIntSorted(lo) || isIntSorted(y) {
			h, l, d := toInt(hi, false), toInt(lo, false), toInt(y, false)
			in.branchPanic(Eq(d, IntConst(0)), "integer divide by zero")
			in.branchPanic(ILe(d, h), "integer overflow")
			n := IAdd(IMul(h, IntConstBig(pow2(64))), l)
			return TupleV{IDiv(n, d), IMod(n, d)}
		}
		in.branchPanic(Eq(y, BVConst(64, 0)), "integer divide by zero")
		in.branchPanic(BVUle(y, hi), "integer overflow")
		n := Concat(hi, lo)
		d := ZeroExt(y, 128)
		return TupleV{Extract(BVUDiv(n, d), 63, 0), Extract(BVURem(n, d), 63, 0)}
	})
	reg("math/bits.Mul64", func(in *Interp, fn *ssa.Function, a []Value) Value {
		x, y := a[0].(*Term), a[1].(*Term)
		if isIntSorted(x) || isIntSorted(y) {
			p := IMul(toInt(x, false), toInt(y, false))
			m := IntConstBig(pow2(64))
			return TupleV{IDiv(p, m), IMod(p, m)}
		}
		p := BVMul(ZeroExt(x, 128), ZeroExt(y, 128))
		return TupleV{Extract(p, 127, 64), Extract(p, 63, 0)}
	})
}

var _ = types.Typ
