package main

import (
	"fmt"
	"go/constant"
	"go/token"
	"go/types"
	"math/big"
	"sort"
	"os"
	"strings"
	"time"

	"golang.org/x/tools/go/ssa"
)

// ---- path control ----

type pathAbort struct {
	kind string // "infeasible", "assume", "unwind", "unsupported", "budget", "bound", "stop"
	msg  string
}

type engineErr string

type goPanicV struct {
	val   Value
	msg   string
	stack []string
}

type deferred struct {
	fn   Value
	args []Value
	call *ssa.CallCommon // for invoke-mode defers
	recv Value
}

type deferStack struct{ list []*deferred }

type frame struct {
	in        *Interp
	fn        *ssa.Function
	caller    *frame
	env       map[ssa.Value]Value
	block     *ssa.BasicBlock
	prev      *ssa.BasicBlock
	defers    *deferStack
	result    Value
	panicking *goPanicV
	recovered bool
	isDefer   bool
	visits    map[*ssa.BasicBlock]int
	initTop   bool
	phiOverride map[*ssa.Phi]Value
	curInstr  ssa.Instruction
}

type Interp struct {
	run  *Run
	prog *ssa.Program

	// path state
	pc        []*Term
	prefix    []bool
	pos       int
	globals   map[*ssa.Global]*Object
	pkgInit   map[*ssa.Package]bool
	nextObj   int
	steps     int
	depth     int
	initMode  int
	nondetCnt map[string]int
	nondets   []*Term // in creation order (for models)
	nondetLog []nondetRec
	hashCalls []hashCall
	ufCalls   map[string][]ufCall
	callLog   map[string]int
	stubLog   map[string]int
	curFrame  *frame
	trace     []string
	assumes   []string
	boxes     int
	events    []string
	extra     map[string]interface{} // harness-scoped scratch (ideal crypto etc.)
	symRefs   map[*Pointer]symRef
	deferCtx  []*frame
	observed  []obsRec
	initLimit int
	globalOf  map[*Object]*ssa.Global
	w         *worker
	pathNo    int
}

type obsRec struct {
	Name string
	Val  Value
}

type nondetRec struct {
	Name string
	Term *Term
	Kind string
}

type hashCall struct {
	fn  string
	in  Value
	out []*Term
}
type ufCall struct {
	args []Value
	out  Value
}

func (in *Interp) abort(kind, msg string) { panic(&pathAbort{kind, msg}) }
func (in *Interp) unsupported(msg string) {
	where := ""
	if in.curFrame != nil {
		where = " in " + in.curFrame.fn.String()
	}
	in.abort("unsupported", msg+where)
}

func (in *Interp) goPanic(msg string) {
	p := &goPanicV{val: &IfaceV{T: types.Typ[types.String], V: mkString("runtime error: " + msg)}, msg: msg}
	p.stack = in.stackNames()
	panic(p)
}

func (in *Interp) stackNames() []string {
	var out []string
	for f := in.curFrame; f != nil && len(out) < 12; f = f.caller {
		out = append(out, f.fn.String())
	}
	return out
}

func (in *Interp) addPC(c *Term) {
	if c == True {
		return
	}
	if c == False {
		in.abort("infeasible", "false path condition")
	}
	in.pc = append(in.pc, c)
}

// decide picks a side of a symbolic branch (see DESIGN §2.3).
func (in *Interp) decide(c *Term) bool {
	if c.IsConst() {
		return c == True
	}
	if in.initMode > 0 {
		in.unsupported("symbolic branch during package init")
	}
	if in.pos < len(in.prefix) {
		d := in.prefix[in.pos]
		in.pos++
		if d {
			in.addPC(c)
		} else {
			in.addPC(Not(c))
		}
		return d
	}
	r := in.run
	tF := r.feasible(in, c)
	d := true
	if tF {
		fF := r.feasible(in, Not(c))
		if fF {
			alt := make([]bool, len(in.prefix)+1)
			copy(alt, in.prefix)
			alt[len(in.prefix)] = false
			r.push(alt)
		}
	} else {
		d = false
	}
	in.prefix = append(in.prefix, d)
	in.pos++
	if d {
		in.addPC(c)
	} else {
		in.addPC(Not(c))
	}
	return d
}

func (in *Interp) branchPanic(c *Term, msg string) {
	if c == False {
		return
	}
	if in.decide(c) {
		in.goPanic(msg)
	}
}

// concretize forks over the values lo..hi of t (inclusive) and returns the chosen one.
func (in *Interp) concretize(t *Term, lo, hi int) int {
	if t.IsConst() {
		v := t.c
		if t.sort.K == SBV {
			v = signedVal(t.c, t.sort.W)
		}
		if in.run.cfg.Concrete != nil && (!v.IsInt64() || v.Int64() < int64(lo) || v.Int64() > int64(hi)) {
			// translator validation with a perturbed input: zzConcrete states the range as a bound
			in.abort("assume", "zzConcrete: value outside the stated range")
		}
		return int(v.Int64())
	}
	for v := lo; v <= hi; v++ {
		var e *Term
		if t.sort.K == SInt {
			e = Eq(t, IntConst(int64(v)))
		} else {
			e = Eq(t, BVConst(t.sort.W, int64(v)))
		}
		if in.decide(e) {
			return v
		}
	}
	in.abort("infeasible", "concretize: no value in range")
	return 0
}

// ---- nondeterministic values ----

func (in *Interp) fresh(name string, s Sort) *Term {
	k := in.nondetCnt[name]
	in.nondetCnt[name] = k + 1
	full := name
	if k > 0 {
		full = fmt.Sprintf("%s#%d", name, k)
	}
	if conc := in.run.cfg.Concrete; conc != nil {
		v := conc[full]
		if v == nil {
			v = new(big.Int)
		}
		switch s.K {
		case SBool:
			return BoolConst(v.Sign() != 0)
		case SInt:
			return IntConstBig(v)
		default:
			return BVConstBig(s.W, v)
		}
	}
	t := Var(fmt.Sprintf("%s:%s%d", full, [...]string{"b", "bv", "i"}[s.K], s.W), s)
	in.nondets = append(in.nondets, t)
	return t
}

// ---- globals / package init ----

func (in *Interp) global(g *ssa.Global) *Pointer {
	if o, ok := in.globals[g]; ok {
		return &Pointer{obj: o}
	}
	in.ensureInit(g.Pkg)
	o, ok := in.globals[g]
	if !ok {
		o = in.newObject(g.Type().(*types.Pointer).Elem(), in.zero(g.Type().(*types.Pointer).Elem()), g.String())
		in.globals[g] = o
	}
	return &Pointer{obj: o}
}

func (in *Interp) ensureInit(pkg *ssa.Package) {
	if pkg == nil || in.pkgInit[pkg] {
		return
	}
	in.pkgInit[pkg] = true
	in.run.mu.Lock()
	snap := in.run.initSnap[pkg]
	in.run.mu.Unlock()
	if snap != nil {
		in.restorePackage(pkg, snap)
		return
	}
	// allocate all globals first
	for _, m := range pkg.Members {
		if g, ok := m.(*ssa.Global); ok {
			if _, have := in.globals[g]; !have {
				et := g.Type().(*types.Pointer).Elem()
				o := in.newObject(et, in.zero(et), g.String())
				in.globals[g] = o
				in.globalOf[o] = g
			}
		}
	}
	if in.run.cfg.NoInit[pkg.Pkg.Path()] {
		return
	}
	defer func() {
		if !in.run.cfg.NoInitCache {
			in.snapshotPackage(pkg)
		}
	}()
	initFn := pkg.Func("init")
	if initFn == nil || initFn.Blocks == nil {
		return
	}
	in.initMode++
	t0init := time.Now()
	savedFrame := in.curFrame
	savedSteps := in.steps
	func() {
		defer func() {
			if r := recover(); r != nil {
				switch r.(type) {
				case *pathAbort, *goPanicV:
					// tolerated: leave remaining globals as they are
				default:
					in.events = append(in.events, fmt.Sprintf("init-engine-limit %s: %v", pkg.Pkg.Path(), r))
				}
			}
		}()
		in.callSSA(initFn, nil, nil, true)
	}()
	in.initMode--
	in.curFrame = savedFrame
	if d := time.Since(t0init); d > 300*time.Millisecond && os.Getenv("GOSYM_DEBUG") != "" {
		fmt.Fprintf(os.Stderr, "init %s: %d steps, %s\n", pkg.Pkg.Path(), in.steps-savedSteps, d)
	}
	in.steps = savedSteps
}

// ---- operands ----

func (fr *frame) get(v ssa.Value) Value {
	switch x := v.(type) {
	case *ssa.Const:
		return fr.in.constVal(x)
	case *ssa.Global:
		return fr.in.global(x)
	case *ssa.Function:
		return &FuncV{Fn: x}
	case *ssa.Builtin:
		return &FuncV{Builtin: x}
	case nil:
		return nil
	}
	r, ok := fr.env[v]
	if !ok {
		panic(fmt.Sprintf("get: no value for %s (%T) in %s", v.Name(), v, fr.fn))
	}
	return r
}

func (in *Interp) constVal(c *ssa.Const) Value {
	t := c.Type()
	if c.Value == nil {
		if _, ok := t.Underlying().(*types.Basic); ok && t.Underlying().(*types.Basic).Kind() == types.UntypedNil {
			return (*Pointer)(nil)
		}
		if _, ok := t.(*types.TypeParam); ok {
			in.unsupported("const of type param")
		}
		return in.zero(t)
	}
	switch {
	case isBool(t):
		return BoolConst(constant.BoolVal(c.Value))
	case isString(t):
		return mkString(constant.StringVal(c.Value))
	case isFloat(t):
		return &PoisonV{"float const"}
	}
	if _, ok := basicInfo(t); ok {
		cv := constant.ToInt(c.Value)
		bi, ok := new(big.Int).SetString(cv.ExactString(), 10)
		if !ok {
			return &PoisonV{"float-ish const"}
		}
		return intConstOf(t, bi)
	}
	panic("constVal: " + t.String())
}

// ---- calling ----

func (in *Interp) call(fv *FuncV, args []Value, site ssa.Instruction) Value {
	if fv == nil || (fv.Fn == nil && fv.Builtin == nil && fv.Native == nil) {
		in.goPanic("call of nil function")
	}
	if fv.Native != nil {
		return fv.Native(in, args)
	}
	if fv.Builtin != nil {
		return in.callBuiltin(fv.Builtin, args, site)
	}
	return in.callFunction(fv.Fn, args, fv.Env)
}

func (in *Interp) callFunction(fn *ssa.Function, args []Value, env []Value) Value {
	name := fn.String()
	if fn.Origin() != nil {
		// generic instance: also try the origin's name for stubs/intrinsics
		if r, ok := in.tryIntrinsic(fn.Origin().String(), fn, args); ok {
			return r
		}
	}
	if r, ok := in.tryIntrinsic(name, fn, args); ok {
		return r
	}
	if fn.Blocks == nil {
		in.unsupported("function without body: " + name)
	}
	if fn.Synthetic == "package initializer" {
		// imported packages are initialised lazily, on first access to one of their globals
		return nil
	}
	in.callLog[name]++
	return in.callSSA(fn, args, env, false)
}

func (in *Interp) callSSA(fn *ssa.Function, args []Value, env []Value, initTop bool) (result Value) {
	if in.depth > in.run.cfg.MaxDepth {
		in.abort("budget", "call depth exceeded at "+fn.String())
	}
	in.depth++
	fr := &frame{in: in, fn: fn, caller: in.curFrame, env: map[ssa.Value]Value{}, defers: &deferStack{}, initTop: initTop}
	in.curFrame = fr
	defer func() {
		in.depth--
		in.curFrame = fr.caller
	}()
	if len(args) != len(fn.Params) {
		panic(fmt.Sprintf("call %s: %d args for %d params", fn, len(args), len(fn.Params)))
	}
	for i, p := range fn.Params {
		fr.env[p] = args[i]
	}
	for i, fv := range fn.FreeVars {
		fr.env[fv] = env[i]
	}
	fr.block = fn.Blocks[0]
	defer func() {
		if fr.block == nil {
			return // normal return
		}
		r := recover()
		gp, ok := r.(*goPanicV)
		if !ok {
			// engine-level error: annotate once with the SSA location for diagnosis
			if _, isAbort := r.(*pathAbort); !isAbort {
				if _, done := r.(engineErr); !done {
					where := fn.String()
					if fr.curInstr != nil {
						where += " @ " + fr.curInstr.String() + " (" + fn.Prog.Fset.Position(fr.curInstr.Pos()).String() + ")"
					}
					r = engineErr(fmt.Sprintf("%v [in %s]", r, where))
				}
			}
			panic(r)
		}
		// Go-level panic unwinding through this frame
		fr.panicking = gp
		in.curFrame = fr
		fr.runDefers()
		if !fr.recovered {
			panic(fr.panicking)
		}
		fr.panicking = nil
		if fn.Recover != nil {
			fr.block = fn.Recover
			fr.prev = nil
			for fr.block != nil {
				fr.runBlock()
			}
			result = fr.result
		} else {
			// zero results
			res := fn.Signature.Results()
			switch res.Len() {
			case 0:
				result = nil
			case 1:
				result = in.zero(res.At(0).Type())
			default:
				result = in.zero(res)
			}
		}
	}()
	for fr.block != nil {
		fr.runBlock()
	}
	return fr.result
}

func (fr *frame) runDefers() {
	for len(fr.defers.list) > 0 {
		n := len(fr.defers.list)
		d := fr.defers.list[n-1]
		fr.defers.list = fr.defers.list[:n-1]
		fr.runDeferred(d)
	}
}

func (fr *frame) runDeferred(d *deferred) {
	in := fr.in
	// a panic inside a deferred call replaces the current panic
	defer func() {
		if r := recover(); r != nil {
			if gp, ok := r.(*goPanicV); ok {
				fr.panicking = gp
				fr.recovered = false
				in.curFrame = fr
				fr.runDefers()
				if !fr.recovered {
					panic(fr.panicking)
				}
				return
			}
			panic(r)
		}
	}()
	fv, _ := d.fn.(*FuncV)
	in.deferCtx = append(in.deferCtx, fr)
	defer func() { in.deferCtx = in.deferCtx[:len(in.deferCtx)-1] }()
	in.call(fv, d.args, nil)
}

func (fr *frame) runBlock() {
	in := fr.in
	b := fr.block
	for _, instr := range b.Instrs {
		in.steps++
		if in.steps > in.run.cfg.MaxSteps {
			in.abort("budget", "step budget exceeded")
		}
		if in.initMode > 0 && !fr.initTop && in.steps > in.initLimit {
			in.abort("budget", "package-init budget exceeded (initialiser left as poison)")
		}
		fr.curInstr = instr
		if fr.initTop {
			fr.execTolerant(instr)
		} else {
			fr.exec(instr)
		}
		if fr.block != b || fr.block == nil {
			return
		}
		if _, ok := instr.(*ssa.Jump); ok {
			return
		}
		if _, ok := instr.(*ssa.If); ok {
			return
		}
	}
}

// execTolerant is used for the top frame of a package initialiser: anything the engine cannot do
// leaves a poison value behind instead of aborting the whole path.
func (fr *frame) execTolerant(instr ssa.Instruction) {
	in := fr.in
	defer func() {
		if r := recover(); r != nil {
			if _, isVal := instr.(ssa.Value); !isVal {
				switch instr.(type) {
				case *ssa.If, *ssa.Return, *ssa.Panic, *ssa.Jump:
					// control flow cannot be poisoned: give up on the rest of this initialiser
					panic(&pathAbort{"unsupported", "package initialiser control flow depends on an unsupported value"})
				}
			}
			switch x := r.(type) {
			case *pathAbort:
				if v, ok := instr.(ssa.Value); ok {
					fr.env[v] = &PoisonV{x.msg}
				}
				in.curFrame = fr
			case *goPanicV:
				if v, ok := instr.(ssa.Value); ok {
					fr.env[v] = &PoisonV{"panic in init: " + x.msg}
				}
				in.curFrame = fr
			default:
				// engine limitation hit while running arbitrary initialiser code: poison the result
				if v, ok := instr.(ssa.Value); ok {
					fr.env[v] = &PoisonV{fmt.Sprint("engine limitation in init: ", r)}
				}
				in.events = append(in.events, fmt.Sprintf("init-engine-limit %s: %v", fr.fn.Pkg.Pkg.Path(), r))
				in.curFrame = fr
			}
		}
	}()
	saveDepth, saveLimit := in.depth, in.initLimit
	defer func() { in.depth, in.initLimit = saveDepth, saveLimit }()
	in.initLimit = in.steps + in.run.cfg.InitBudget
	fr.exec(instr)
}

func (fr *frame) exec(instr ssa.Instruction) {
	in := fr.in
	switch x := instr.(type) {
	case *ssa.DebugRef:
	case *ssa.UnOp:
		fr.env[x] = fr.unop(x)
	case *ssa.BinOp:
		fr.env[x] = in.binop(x.Op, x.X.Type(), fr.get(x.X), fr.get(x.Y), x.Y.Type())
	case *ssa.Call:
		fr.env[x] = fr.callInstr(&x.Call, x)
	case *ssa.ChangeInterface:
		fr.env[x] = fr.get(x.X)
	case *ssa.ChangeType:
		fr.env[x] = fr.get(x.X)
	case *ssa.Convert:
		fr.env[x] = in.convert(x.X.Type(), x.Type(), fr.get(x.X))
	case *ssa.MultiConvert:
		in.unsupported("MultiConvert")
	case *ssa.SliceToArrayPointer:
		s := fr.get(x.X).(*SliceV)
		at := x.Type().(*types.Pointer).Elem().Underlying().(*types.Array)
		n := int(at.Len())
		if s.base == nil {
			if n == 0 {
				fr.env[x] = (*Pointer)(nil)
				break
			}
			in.goPanic("slice to array pointer: nil slice")
		}
		in.branchPanic(lenLt(s.n, n), "cannot convert slice to array pointer: length too short")
		// materialise a view only when aligned with the backing array
		arr := in.arrOf(s)
		if s.off == 0 && len(arr.e) == n {
			fr.env[x] = s.base
		} else {
			in.unsupported("SliceToArrayPointer into the middle of an array")
		}
	case *ssa.MakeInterface:
		fr.env[x] = &IfaceV{T: x.X.Type(), V: fr.get(x.X)}
	case *ssa.Extract:
		fr.env[x] = fr.get(x.Tuple).(TupleV)[x.Index]
	case *ssa.Slice:
		fr.env[x] = fr.slice(x)
	case *ssa.Return:
		switch len(x.Results) {
		case 0:
		case 1:
			fr.result = fr.get(x.Results[0])
		default:
			tv := make(TupleV, len(x.Results))
			for i, r := range x.Results {
				tv[i] = fr.get(r)
			}
			fr.result = tv
		}
		fr.block = nil
	case *ssa.RunDefers:
		fr.runDefers()
	case *ssa.Panic:
		v := fr.get(x.X)
		p := &goPanicV{val: v, msg: "panic: " + describe(v)}
		p.stack = in.stackNames()
		panic(p)
	case *ssa.Send:
		ch := fr.get(x.Chan).(*ChanObj)
		if ch == nil {
			in.unsupported("send on nil channel")
		}
		if len(ch.buf) >= ch.cap {
			in.unsupported("blocking channel send")
		}
		ch.buf = append(ch.buf, fr.get(x.X))
	case *ssa.Store:
		p, ok := fr.get(x.Addr).(*Pointer)
		if !ok {
			if pv, isP := fr.get(x.Addr).(*PoisonV); isP {
				in.unsupported("store through poison pointer: " + pv.why)
			}
			panic(fmt.Sprintf("store to %T", fr.get(x.Addr)))
		}
		in.storeSym(p, fr.get(x.Val))
	case *ssa.If:
		c, ok := fr.get(x.Cond).(*Term)
		if !ok {
			in.unsupported("branch on non-scalar (poison?)")
		}
		if !c.IsConst() {
			if fr.visits == nil {
				fr.visits = map[*ssa.BasicBlock]int{}
			}
			fr.visits[fr.block]++
			if fr.visits[fr.block] > in.run.cfg.Unwind {
				in.abort("unwind", fmt.Sprintf("unwinding bound %d exceeded at %s block %d", in.run.cfg.Unwind, fr.fn, fr.block.Index))
			}
		}
		if !c.IsConst() && !in.run.cfg.NoIfConv && fr.ifConvert(x, c) {
			return
		}
		succ := 1
		if in.decide(c) {
			succ = 0
		}
		fr.prev, fr.block = fr.block, fr.block.Succs[succ]
	case *ssa.Jump:
		fr.prev, fr.block = fr.block, fr.block.Succs[0]
	case *ssa.Defer:
		d := &deferred{}
		fv, args := fr.prepareCall(&x.Call)
		d.fn, d.args = fv, args
		ds := fr.defers
		if x.DeferStack != nil {
			ds = fr.get(x.DeferStack).(*deferStack)
		}
		ds.list = append(ds.list, d)
	case *ssa.Go:
		fv, args := fr.prepareCall(&x.Call)
		in.goStmt(fv, args)
	case *ssa.MakeChan:
		sz := in.concretize(fr.get(x.Size).(*Term), 0, 64)
		in.nextObj++
		fr.env[x] = &ChanObj{id: in.nextObj, cap: sz}
	case *ssa.Alloc:
		et := x.Type().(*types.Pointer).Elem()
		fr.env[x] = &Pointer{obj: in.newObject(et, in.zero(et), x.Comment)}
	case *ssa.MakeSlice:
		fr.env[x] = fr.makeSlice(x)
	case *ssa.MakeMap:
		in.nextObj++
		fr.env[x] = &MapObj{id: in.nextObj, typ: x.Type().Underlying().(*types.Map)}
	case *ssa.Range:
		fr.env[x] = fr.rangeIter(x)
	case *ssa.Next:
		fr.env[x] = fr.next(x)
	case *ssa.FieldAddr:
		p, ok := fr.get(x.X).(*Pointer)
		if !ok {
			in.unsupported("FieldAddr of non-pointer (poison?)")
		}
		if p == nil {
			in.goPanic("nil pointer dereference (field " + fieldName(x.X.Type(), x.Field) + ")")
		}
		p = in.concretePtr(p)
		fr.env[x] = p.extend(x.Field)
	case *ssa.Field:
		switch s := fr.get(x.X).(type) {
		case *StructV:
			fr.env[x] = s.f[x.Field]
		case *PoisonV:
			fr.env[x] = s
		default:
			panic(fmt.Sprintf("Field of %T", s))
		}
	case *ssa.IndexAddr:
		fr.env[x] = fr.indexAddr(x)
	case *ssa.Index:
		fr.env[x] = fr.index(x)
	case *ssa.Lookup:
		fr.env[x] = fr.lookup(x)
	case *ssa.MapUpdate:
		m, _ := fr.get(x.Map).(*MapObj)
		if m == nil {
			in.goPanic("assignment to entry in nil map")
		}
		in.mapSet(m, fr.get(x.Key), fr.get(x.Value))
	case *ssa.TypeAssert:
		fr.env[x] = fr.typeAssert(x)
	case *ssa.MakeClosure:
		fn := x.Fn.(*ssa.Function)
		env := make([]Value, len(x.Bindings))
		for i, b := range x.Bindings {
			env[i] = fr.get(b)
		}
		fr.env[x] = &FuncV{Fn: fn, Env: env}
	case *ssa.Phi:
		if v, ok := fr.phiOverride[x]; ok {
			fr.env[x] = v
			delete(fr.phiOverride, x)
			return
		}
		for i, pred := range x.Block().Preds {
			if pred == fr.prev {
				fr.env[x] = fr.get(x.Edges[i])
				return
			}
		}
		panic("phi: no matching predecessor")
	case *ssa.Select:
		fr.env[x] = fr.selectInstr(x)
	default:
		panic(fmt.Sprintf("unexpected instruction %T", instr))
	}
}

func fieldName(t types.Type, i int) string {
	if p, ok := t.Underlying().(*types.Pointer); ok {
		if s, ok := p.Elem().Underlying().(*types.Struct); ok && i < s.NumFields() {
			return s.Field(i).Name()
		}
	}
	return fmt.Sprint(i)
}

func (fr *frame) unop(x *ssa.UnOp) Value {
	in := fr.in
	v := fr.get(x.X)
	switch x.Op {
	case token.MUL: // load
		p, ok := v.(*Pointer)
		if !ok {
			if pv, isP := v.(*PoisonV); isP {
				if in.initMode > 0 {
					return pv
				}
				in.unsupported("load through poison pointer: " + pv.why)
			}
			panic(fmt.Sprintf("load from %T", v))
		}
		return in.loadSym(p)
	case token.ARROW:
		ch, _ := v.(*ChanObj)
		if ch == nil || len(ch.buf) == 0 {
			in.unsupported("blocking channel receive")
		}
		r := ch.buf[0]
		ch.buf = ch.buf[1:]
		if x.CommaOk {
			return TupleV{r, True}
		}
		return r
	}
	if _, ok := v.(*PoisonV); ok {
		in.unsupported("unop on poison")
	}
	return in.unop(x.Op, x.X.Type(), v)
}

func (fr *frame) prepareCall(c *ssa.CallCommon) (*FuncV, []Value) {
	in := fr.in
	var args []Value
	var fv *FuncV
	if c.IsInvoke() {
		recv := fr.get(c.Value)
		iv, ok := recv.(*IfaceV)
		if !ok {
			in.unsupported("invoke on non-interface value (poison?)")
		}
		if iv.T == nil {
			in.goPanic("nil interface method call: " + c.Method.Name())
		}
		m := in.lookupMethod(iv.T, c.Method)
		if m == nil {
			in.unsupported("method not found: " + typeKey(iv.T) + "." + c.Method.Name())
		}
		fv = &FuncV{Fn: m}
		args = append(args, iv.V)
	} else {
		v := fr.get(c.Value)
		var ok bool
		fv, ok = v.(*FuncV)
		if !ok {
			if pv, isP := v.(*PoisonV); isP {
				in.unsupported("call of poison function: " + pv.why)
			}
			panic(fmt.Sprintf("call of %T", v))
		}
	}
	for _, a := range c.Args {
		args = append(args, fr.get(a))
	}
	return fv, args
}

func (in *Interp) lookupMethod(t types.Type, m *types.Func) *ssa.Function {
	ms := in.prog.MethodSets.MethodSet(t)
	sel := ms.Lookup(m.Pkg(), m.Name())
	if sel == nil {
		return nil
	}
	return in.prog.MethodValue(sel)
}

func (fr *frame) callInstr(c *ssa.CallCommon, site ssa.Instruction) Value {
	fv, args := fr.prepareCall(c)
	return fr.in.call(fv, args, site)
}

func (in *Interp) goStmt(fv *FuncV, args []Value) {
	name := ""
	if fv.Fn != nil {
		name = fv.Fn.String()
	}
	if in.run.cfg.GoPolicy == "skip" {
		in.events = append(in.events, "go-skipped:"+name)
		return
	}
	if in.run.cfg.GoPolicy == "inline" {
		in.call(fv, args, nil)
		return
	}
	in.unsupported("go statement: " + name)
}

// ---- memory with symbolic indices ----

// symPointer: a pointer whose last path element is a symbolic index into an array of scalars or
// aggregates. Represented as Pointer{path: [..., -1]} with the index stored in symIdx map.
type symRef struct {
	idx  *Term
	base int // offset added to idx
	max  int // exclusive bound on idx (elements base..base+max-1 are addressable)
}

func (in *Interp) loadSym(p *Pointer) Value {
	if p != nil && len(p.path) > 0 && p.path[len(p.path)-1] < 0 {
		sr := in.symRefs[p]
		parent := &Pointer{obj: p.obj, path: p.path[:len(p.path)-1]}
		var res Value
		for k := sr.max - 1; k >= 0; k-- {
			ev := in.load(parent.extend(sr.base + k))
			if res == nil {
				res = ev
				continue
			}
			m, ok := in.mergeVal(idxEq(sr.idx, k), ev, res)
			if !ok {
				// fall back to forking
				c := in.concretize(sr.idx, 0, sr.max-1)
				return in.load(parent.extend(sr.base + c))
			}
			res = m
		}
		if res == nil {
			in.abort("infeasible", "symbolic load from empty range")
		}
		return res
	}
	return in.load(p)
}

func idxEq(i *Term, k int) *Term {
	if i.sort.K == SInt {
		return Eq(i, IntConst(int64(k)))
	}
	return Eq(i, BVConst(i.sort.W, int64(k)))
}

func (in *Interp) storeSym(p *Pointer, v Value) {
	if p != nil && len(p.path) > 0 && p.path[len(p.path)-1] < 0 {
		sr := in.symRefs[p]
		parent := &Pointer{obj: p.obj, path: p.path[:len(p.path)-1]}
		// try ite-update of every element
		olds := make([]Value, sr.max)
		news := make([]Value, sr.max)
		okAll := true
		for k := 0; k < sr.max; k++ {
			olds[k] = in.load(parent.extend(sr.base + k))
			m, ok := in.mergeVal(idxEq(sr.idx, k), v, olds[k])
			if !ok {
				okAll = false
				break
			}
			news[k] = m
		}
		if okAll {
			for k := 0; k < sr.max; k++ {
				in.store(parent.extend(sr.base+k), news[k])
			}
			return
		}
		c := in.concretize(sr.idx, 0, sr.max-1)
		in.store(parent.extend(sr.base+c), v)
		return
	}
	in.store(p, v)
}

func (in *Interp) concretePtr(p *Pointer) *Pointer {
	if p != nil && len(p.path) > 0 && p.path[len(p.path)-1] < 0 {
		sr := in.symRefs[p]
		c := in.concretize(sr.idx, 0, sr.max-1)
		parent := &Pointer{obj: p.obj, path: p.path[:len(p.path)-1]}
		return parent.extend(sr.base + c)
	}
	return p
}

func (in *Interp) symPointer(parent *Pointer, idx *Term, base, max int) *Pointer {
	p := parent.extend(-1)
	in.symRefs[p] = symRef{idx, base, max}
	return p
}

// idxInRange: 0 <= i < n as a term, for a Go int index i (signed) and length term n
func idxOutOfRange(i, n *Term) *Term {
	i, n = sameSortPair(i, n)
	if i.sort.K == SInt {
		return Or(ILt(i, IntConst(0)), IGe(i, n))
	}
	return Or(BVSlt(i, BVConst(i.sort.W, 0)), BVSge(i, n))
}

func (in *Interp) asIndex(v Value, t types.Type) *Term {
	x := v.(*Term)
	if x.sort.K == SInt {
		return x
	}
	ii, _ := basicInfo(t)
	if x.sort.W < 64 {
		if ii.signed {
			return SignExt(x, 64)
		}
		return ZeroExt(x, 64)
	}
	if !ii.signed {
		// uint64 index: values >= 2^63 are out of range anyway; as signed they are negative
		return x
	}
	return x
}

func (fr *frame) indexAddr(x *ssa.IndexAddr) Value {
	in := fr.in
	idx := in.asIndex(fr.get(x.Index), x.Index.Type())
	switch xv := fr.get(x.X).(type) {
	case *Pointer: // *array
		if xv == nil {
			in.goPanic("nil pointer dereference (index)")
		}
		xv = in.concretePtr(xv)
		at := x.X.Type().Underlying().(*types.Pointer).Elem().Underlying().(*types.Array)
		n := int(at.Len())
		in.branchPanic(idxOutOfRange(idx, goInt(n)), "index out of range")
		if idx.IsConst() {
			return xv.extend(int(signedVal(idx.c, 64).Int64()))
		}
		return in.symPointer(xv, idx, 0, n)
	case *SliceV:
		if xv.box != nil {
			in.unsupported("indexing an opaque marshalled message (" + xv.box.tag + ")")
		}
		in.branchPanic(idxOutOfRange(idx, xv.n), "index out of range")
		if xv.base == nil {
			in.abort("infeasible", "index of nil slice")
		}
		base := xv.base
		if idx.IsConst() {
			return base.extend(xv.off + in.constIdx(idx))
		}
		max := xv.cap
		if xv.n.IsConst() {
			max = in.constIdx(xv.n)
		}
		return in.symPointer(base, idx, xv.off, max)
	case *PoisonV:
		in.unsupported("index of poison: " + xv.why)
	}
	panic(fmt.Sprintf("IndexAddr of %T", fr.get(x.X)))
}

func (in *Interp) constIdx(t *Term) int {
	if t.sort.K == SInt {
		return int(t.c.Int64())
	}
	return int(signedVal(t.c, t.sort.W).Int64())
}

func (fr *frame) index(x *ssa.Index) Value {
	in := fr.in
	idx := in.asIndex(fr.get(x.Index), x.Index.Type())
	switch xv := fr.get(x.X).(type) {
	case *ArrayV:
		in.branchPanic(idxOutOfRange(idx, goInt(len(xv.e))), "index out of range")
		if idx.IsConst() {
			return xv.e[in.constIdx(idx)]
		}
		return in.selectElem(idx, xv.e)
	case *StringV:
		in.branchPanic(idxOutOfRange(idx, xv.lenTerm()), "index out of range (string)")
		if idx.IsConst() {
			return xv.b[in.constIdx(idx)]
		}
		vs := make([]Value, len(xv.b))
		for i, b := range xv.b {
			vs[i] = b
		}
		return in.selectElem(idx, vs)
	}
	panic(fmt.Sprintf("Index of %T", fr.get(x.X)))
}

func (in *Interp) selectElem(idx *Term, elems []Value) Value {
	var res Value
	for k := len(elems) - 1; k >= 0; k-- {
		if res == nil {
			res = elems[k]
			continue
		}
		m, ok := in.mergeVal(idxEq(idx, k), elems[k], res)
		if !ok {
			c := in.concretize(idx, 0, len(elems)-1)
			return elems[c]
		}
		res = m
	}
	return res
}

// ---- slices ----

func (fr *frame) makeSlice(x *ssa.MakeSlice) Value {
	in := fr.in
	et := x.Type().Underlying().(*types.Slice).Elem()
	ln := in.asIndex(fr.get(x.Len), x.Len.Type())
	cp := in.asIndex(fr.get(x.Cap), x.Cap.Type())
	return in.makeSliceOf(et, ln, cp)
}

func (in *Interp) makeSliceOf(et types.Type, ln, cp *Term) *SliceV {
	maxAlloc := int64(1) << 47
	// negative or absurd sizes panic like the runtime does
	tooBig := func(t *Term) *Term {
		if t.sort.K == SInt {
			return Or(ILt(t, IntConst(0)), IGt(t, IntConst(maxAlloc)))
		}
		return Or(BVSlt(t, BVConst(64, 0)), BVSgt(t, BVConst(64, maxAlloc)))
	}
	in.branchPanic(tooBig(ln), "makeslice: len out of range")
	if cp != ln {
		in.branchPanic(tooBig(cp), "makeslice: cap out of range")
	}
	var c int
	if cp.IsConst() {
		c = in.constIdx(cp)
	} else {
		c = in.run.cfg.MaxAlloc
		if in.decide(Not(lenLe(cp, c))) {
			in.abort("bound", fmt.Sprintf("symbolic allocation larger than MaxAlloc=%d", c))
		}
	}
	if c > in.run.cfg.MaxConcreteAlloc {
		in.abort("bound", fmt.Sprintf("allocation of %d elements exceeds MaxConcreteAlloc", c))
	}
	if ln.IsConst() && in.constIdx(ln) > c {
		in.goPanic("makeslice: cap out of range")
	}
	arr := &ArrayV{e: make([]Value, c)}
	if c > 0 {
		z := in.zero(et)
		for i := range arr.e {
			arr.e[i] = copyVal(z)
		}
	}
	o := in.newObject(types.NewArray(et, int64(c)), arr, "makeslice")
	return &SliceV{base: &Pointer{obj: o}, off: 0, n: ln, cap: c}
}

func (fr *frame) slice(x *ssa.Slice) Value {
	in := fr.in
	getIdx := func(v ssa.Value) *Term {
		if v == nil {
			return nil
		}
		return in.asIndex(fr.get(v), v.Type())
	}
	lo, hi, max := getIdx(x.Low), getIdx(x.High), getIdx(x.Max)
	switch xv := fr.get(x.X).(type) {
	case *SliceV:
		if xv.box != nil {
			if lo == nil && hi == nil {
				return xv
			}
			in.unsupported("slicing an opaque marshalled message (" + xv.box.tag + ")")
		}
		return in.sliceOf(xv.base, xv.off, xv.n, xv.cap, lo, hi, max)
	case *StringV:
		n := xv.lenTerm()
		if lo == nil {
			lo = goInt(0)
		}
		if hi == nil {
			hi = n
		}
		lo, hi = sameSortPair(lo, hi)
		hi, n = sameSortPair(hi, n)
		lo, _ = sameSortPair(lo, hi)
		in.branchPanic(Or(idxNeg(hi), idxGt(hi, n)), "slice bounds out of range (string)")
		in.branchPanic(Or(idxNeg(lo), idxGt(lo, hi)), "slice bounds out of range (string lo>hi)")
		l := in.concretize(lo, 0, len(xv.b))
		if hi.IsConst() {
			return &StringV{b: xv.b[l:in.constIdx(hi)]}
		}
		return &StringV{b: xv.b[l:], n: idxSub(hi, lo)}
	case *Pointer: // *array
		if xv == nil {
			in.goPanic("nil pointer dereference (slice of *array)")
		}
		xv = in.concretePtr(xv)
		at := x.X.Type().Underlying().(*types.Pointer).Elem().Underlying().(*types.Array)
		n := int(at.Len())
		return in.sliceOf(xv, 0, goInt(n), n, lo, hi, max)
	case *PoisonV:
		in.unsupported("slice of poison: " + xv.why)
	}
	panic(fmt.Sprintf("Slice of %T", fr.get(x.X)))
}

func idxNeg(t *Term) *Term {
	if t.sort.K == SInt {
		return ILt(t, IntConst(0))
	}
	return BVSlt(t, BVConst(t.sort.W, 0))
}
func idxGt(a, b *Term) *Term {
	a, b = sameSortPair(a, b)
	if a.sort.K == SInt {
		return IGt(a, b)
	}
	return BVSgt(a, b)
}
func idxSub(a, b *Term) *Term {
	a, b = sameSortPair(a, b)
	if a.sort.K == SInt {
		return ISub(a, b)
	}
	return BVSub(a, b)
}
func idxAdd(a, b *Term) *Term {
	a, b = sameSortPair(a, b)
	if a.sort.K == SInt {
		return IAdd(a, b)
	}
	return BVAdd(a, b)
}

func (in *Interp) sliceOf(arr *Pointer, off int, n *Term, cp int, lo, hi, max *Term) Value {
	if lo == nil {
		lo = goInt(0)
	}
	if hi == nil {
		hi = n
	}
	capT := goInt(cp)
	if max != nil {
		in.branchPanic(Or(idxNeg(max), idxGt(max, capT)), "slice bounds out of range (max)")
		in.branchPanic(idxGt(hi, max), "slice bounds out of range (hi>max)")
	} else {
		in.branchPanic(Or(idxNeg(hi), idxGt(hi, capT)), "slice bounds out of range")
	}
	in.branchPanic(Or(idxNeg(lo), idxGt(lo, hi)), "slice bounds out of range (lo>hi)")
	if arr == nil {
		// nil slice resliced [0:0]
		return &SliceV{n: goInt(0)}
	}
	l := in.concretize(lo, 0, cp)
	ncap := cp - l
	if max != nil {
		ncap = in.concretize(max, 0, cp) - l
	}
	nn := idxSub(hi, goInt(l))
	if hi.sort.K == SInt {
		nn = ISub(hi, IntConst(int64(l)))
	}
	return &SliceV{base: arr, off: off + l, n: nn, cap: ncap}
}

// navigate walks a pointer without copying.
func (in *Interp) navigate(p *Pointer) Value {
	v := p.obj.v
	for _, i := range p.path {
		switch x := v.(type) {
		case *StructV:
			v = x.f[i]
		case *ArrayV:
			v = x.e[i]
		default:
			panic(fmt.Sprintf("navigate: bad path through %T", v))
		}
	}
	return v
}

func (in *Interp) arrOf(s *SliceV) *ArrayV {
	a, ok := in.navigate(s.base).(*ArrayV)
	if !ok {
		panic(fmt.Sprintf("arrOf: slice base is %T", in.navigate(s.base)))
	}
	return a
}

// sliceLenConcrete forks until the slice length is concrete.
func (in *Interp) sliceLenConcrete(s *SliceV) int {
	if s.n.IsConst() {
		return in.constIdx(s.n)
	}
	k := in.concretize(s.n, 0, s.cap)
	return k
}

func (in *Interp) sliceElems(s *SliceV) []Value {
	if s.base == nil {
		return nil
	}
	n := in.sliceLenConcrete(s)
	arr := in.arrOf(s)
	return arr.e[s.off : s.off+n]
}

// ---- maps ----

func (in *Interp) mapFind(m *MapObj, k Value) *mapEntry {
	if m == nil {
		return nil
	}
	for _, e := range m.entries {
		eq := in.valEq(e.k, k)
		if in.decide(eq) {
			return e
		}
	}
	return nil
}

func (in *Interp) mapSet(m *MapObj, k, v Value) {
	if e := in.mapFind(m, k); e != nil {
		e.v = copyVal(v)
		return
	}
	m.entries = append(m.entries, &mapEntry{k: copyVal(k), v: copyVal(v)})
}

func (in *Interp) mapDelete(m *MapObj, k Value) {
	if m == nil {
		return
	}
	for i, e := range m.entries {
		if in.decide(in.valEq(e.k, k)) {
			m.entries = append(m.entries[:i:i], m.entries[i+1:]...)
			return
		}
	}
}

func (fr *frame) lookup(x *ssa.Lookup) Value {
	in := fr.in
	switch xv := fr.get(x.X).(type) {
	case *MapObj:
		k := fr.get(x.Index)
		var zero Value
		if mt, ok := x.X.Type().Underlying().(*types.Map); ok {
			zero = in.zero(mt.Elem())
		}
		e := in.mapFind(xv, k)
		if x.CommaOk {
			if e == nil {
				return TupleV{zero, False}
			}
			return TupleV{copyVal(e.v), True}
		}
		if e == nil {
			return zero
		}
		return copyVal(e.v)
	case *StringV:
		idx := in.asIndex(fr.get(x.Index), x.Index.Type())
		in.branchPanic(idxOutOfRange(idx, xv.lenTerm()), "index out of range (string)")
		if idx.IsConst() {
			return xv.b[in.constIdx(idx)]
		}
		vs := make([]Value, len(xv.b))
		for i, b := range xv.b {
			vs[i] = b
		}
		return in.selectElem(idx, vs)
	case *PoisonV:
		in.unsupported("lookup in poison: " + xv.why)
	}
	panic(fmt.Sprintf("Lookup in %T", fr.get(x.X)))
}

func (fr *frame) rangeIter(x *ssa.Range) Value {
	in := fr.in
	switch xv := fr.get(x.X).(type) {
	case *MapObj:
		it := &RangeIter{}
		if xv != nil {
			ents := append([]*mapEntry(nil), xv.entries...)
			if in.run.cfg.MapOrder == "sorted" {
				sort.SliceStable(ents, func(i, j int) bool { return describe(ents[i].k) < describe(ents[j].k) })
			}
			if in.run.cfg.MapOrder == "all" && len(ents) > 1 {
				ents = in.permute(ents)
			}
			for _, e := range ents {
				it.keys = append(it.keys, e.k)
				it.vals = append(it.vals, e.v)
			}
		}
		return it
	case *StringV:
		n := in.strLenConcrete(xv)
		return &RangeIter{str: &StringV{b: xv.b[:n]}}
	}
	panic(fmt.Sprintf("Range over %T", fr.get(x.X)))
}

// permute forks over every order of the entries (order-independence obligations).
func (in *Interp) permute(ents []*mapEntry) []*mapEntry {
	out := make([]*mapEntry, 0, len(ents))
	rest := append([]*mapEntry(nil), ents...)
	for len(rest) > 1 {
		chosen := len(rest) - 1
		for i := 0; i < len(rest)-1; i++ {
			if in.decide(in.fresh("zz.maporder", BoolSort)) {
				chosen = i
				break
			}
		}
		out = append(out, rest[chosen])
		rest = append(rest[:chosen:chosen], rest[chosen+1:]...)
	}
	return append(out, rest...)
}

func (fr *frame) next(x *ssa.Next) Value {
	in := fr.in
	it := fr.get(x.Iter).(*RangeIter)
	if x.IsString {
		if it.i >= len(it.str.b) {
			return TupleV{False, goInt(0), BVConst(32, 0)}
		}
		b := it.str.b[it.i]
		// ASCII only unless concrete
		if b.IsConst() && b.c.Int64() < 0x80 {
			i := it.i
			it.i++
			return TupleV{True, goInt(i), ZeroExt(b, 32)}
		}
		in.unsupported("range over non-ASCII / symbolic string")
	}
	tt := x.Type().(*types.Tuple)
	if it.i >= len(it.keys) {
		return TupleV{False, in.zeroOrNil(tt.At(1).Type()), in.zeroOrNil(tt.At(2).Type())}
	}
	k, v := it.keys[it.i], it.vals[it.i]
	it.i++
	return TupleV{True, copyVal(k), copyVal(v)}
}

func (in *Interp) zeroOrNil(t types.Type) Value {
	if b, ok := t.(*types.Basic); ok && b.Kind() == types.Invalid {
		return nil
	}
	return in.zero(t)
}

// ---- type assertions ----

func (fr *frame) typeAssert(x *ssa.TypeAssert) Value {
	in := fr.in
	v := fr.get(x.X)
	iv, ok := v.(*IfaceV)
	if !ok {
		if pv, isP := v.(*PoisonV); isP {
			in.unsupported("type assertion on poison: " + pv.why)
		}
		panic(fmt.Sprintf("TypeAssert on %T", v))
	}
	okT := false
	var res Value
	if iv.T != nil {
		if it, isIface := x.AssertedType.Underlying().(*types.Interface); isIface {
			if types.Implements(iv.T, it) || implementsViaSet(in, iv.T, it) {
				okT = true
				res = iv
			}
		} else if types.Identical(iv.T, x.AssertedType) {
			okT = true
			res = iv.V
		}
	}
	if x.CommaOk {
		if !okT {
			return TupleV{in.zero(x.AssertedType), False}
		}
		return TupleV{res, True}
	}
	if !okT {
		tn := "nil"
		if iv.T != nil {
			tn = typeKey(iv.T)
		}
		in.goPanic("interface conversion: " + tn + " is not " + typeKey(x.AssertedType))
	}
	return res
}

func implementsViaSet(in *Interp, t types.Type, it *types.Interface) bool {
	ms := in.prog.MethodSets.MethodSet(t)
	for i := 0; i < it.NumMethods(); i++ {
		m := it.Method(i)
		if ms.Lookup(m.Pkg(), m.Name()) == nil {
			return false
		}
	}
	return true
}

// ---- select ----

func (fr *frame) selectInstr(x *ssa.Select) Value {
	in := fr.in
	// result tuple: (index int, recvOk bool, recv_0, ..., recv_n-1)
	nrecv := 0
	for _, st := range x.States {
		if st.Dir == types.RecvOnly {
			nrecv++
		}
	}
	mk := func(idx int, ok bool, recvIdx int, rv Value) Value {
		tv := TupleV{goInt(idx), BoolConst(ok)}
		k := 0
		for _, st := range x.States {
			if st.Dir == types.RecvOnly {
				if k == recvIdx && rv != nil {
					tv = append(tv, rv)
				} else {
					tv = append(tv, in.zero(st.Chan.Type().Underlying().(*types.Chan).Elem()))
				}
				k++
			}
		}
		return tv
	}
	k := 0
	for i, st := range x.States {
		ch, _ := fr.get(st.Chan).(*ChanObj)
		if st.Dir == types.SendOnly {
			if ch != nil && len(ch.buf) < ch.cap {
				ch.buf = append(ch.buf, fr.get(st.Send))
				return mk(i, false, -1, nil)
			}
		} else {
			if ch != nil && len(ch.buf) > 0 {
				v := ch.buf[0]
				ch.buf = ch.buf[1:]
				return mk(i, true, k, v)
			}
			k++
		}
	}
	if !x.Blocking {
		return mk(-1, false, -1, nil)
	}
	in.unsupported("blocking select")
	return nil
}

// ---- conversions ----

func (in *Interp) convert(from, to types.Type, v Value) Value {
	if pv, ok := v.(*PoisonV); ok {
		if in.initMode > 0 {
			return pv
		}
		in.unsupported("convert poison: " + pv.why)
	}
	fu, tu := from.Underlying(), to.Underlying()
	if fi, ok := basicInfo(from); ok {
		if ti, ok := basicInfo(to); ok {
			return in.convertInt(v.(*Term), fi, ti)
		}
		if isString(to) {
			// string(rune)
			t := v.(*Term)
			if t.IsConst() {
				return mkString(string(rune(in.constIdx(t))))
			}
			in.unsupported("string(symbolic rune)")
		}
		if isFloat(to) {
			return &PoisonV{"float conversion"}
		}
		if b, ok := tu.(*types.Basic); ok && b.Kind() == types.UnsafePointer {
			in.unsupported("uintptr -> unsafe.Pointer")
		}
	}
	if isFloat(from) {
		return &PoisonV{"float conversion"}
	}
	if isString(from) {
		if sl, ok := tu.(*types.Slice); ok {
			s := v.(*StringV)
			if bi, ok := basicInfo(sl.Elem()); ok && bi.w == 8 {
				return in.bytesOfString(s)
			}
			in.unsupported("string -> []rune")
		}
		if isString(to) {
			return v
		}
	}
	if sl, ok := fu.(*types.Slice); ok && isString(to) {
		if bi, ok := basicInfo(sl.Elem()); ok && bi.w == 8 {
			return in.stringOfBytes(v.(*SliceV))
		}
		in.unsupported("[]rune -> string")
	}
	if _, ok := fu.(*types.Pointer); ok {
		if b, ok := tu.(*types.Basic); ok && b.Kind() == types.UnsafePointer {
			return v
		}
	}
	if b, ok := fu.(*types.Basic); ok && b.Kind() == types.UnsafePointer {
		if _, ok := tu.(*types.Pointer); ok {
			// only the identity round-trip *T -> unsafe.Pointer -> *T is supported
			return v
		}
		if _, ok := basicInfo(to); ok {
			in.unsupported("unsafe.Pointer -> uintptr")
		}
	}
	// slice -> slice of identical underlying etc.
	if types.Identical(fu, tu) {
		return v
	}
	in.unsupported(fmt.Sprintf("conversion %s -> %s", from, to))
	return nil
}

func (in *Interp) bytesOfString(s *StringV) *SliceV {
	arr := &ArrayV{e: make([]Value, len(s.b))}
	for i, b := range s.b {
		arr.e[i] = b
	}
	o := in.newObject(nil, arr, "[]byte(string)")
	return &SliceV{base: &Pointer{obj: o}, n: s.lenTerm(), cap: len(s.b)}
}

func (in *Interp) stringOfBytes(s *SliceV) *StringV {
	if s.box != nil {
		// opaque: the string form of a box is identified with the box (used as map key / compare)
		return &StringV{b: in.boxBytes(s.box)}
	}
	if s.base == nil {
		return &StringV{}
	}
	arr := in.arrOf(s)
	r := &StringV{}
	hi := s.off + s.cap
	if s.n.IsConst() {
		hi = s.off + in.constIdx(s.n)
	} else {
		r.n = s.n
	}
	for _, e := range arr.e[s.off:hi] {
		t, ok := e.(*Term)
		if !ok {
			in.unsupported("string of non-byte slice")
		}
		r.b = append(r.b, t)
	}
	return r
}

func builtinName(b *ssa.Builtin) string { return b.Name() }

var _ = strings.Contains
