package main

import (
	"go/token"
	"go/types"
	"sync/atomic"

	"golang.org/x/tools/go/ssa"
)

// If-conversion (DESIGN §2.3): a symbolic branch whose arms are short, side-effect free and meet
// again immediately is merged into ite-terms instead of forking the path.

const maxArm = 24

func (fr *frame) ifConvert(x *ssa.If, c *Term) bool {
	b := x.Block()
	T, F := b.Succs[0], b.Succs[1]
	var J *ssa.BasicBlock
	var armT, armF *ssa.BasicBlock // nil arm = direct edge from b
	switch {
	case len(T.Preds) == 1 && len(F.Preds) == 1 && jumpTarget(T) != nil && jumpTarget(T) == jumpTarget(F):
		J, armT, armF = jumpTarget(T), T, F
	case len(T.Preds) == 1 && jumpTarget(T) == F:
		J, armT = F, T
	case len(F.Preds) == 1 && jumpTarget(F) == T:
		J, armF = T, F
	default:
		return false
	}
	if J == b || T == F {
		return false
	}
	if !fr.armStaticallyPure(armT) || !fr.armStaticallyPure(armF) {
		return false
	}
	if !fr.runArm(armT) || !fr.runArm(armF) {
		return false
	}
	predT, predF := b, b
	if armT != nil {
		predT = armT
	}
	if armF != nil {
		predF = armF
	}
	idx := func(p *ssa.BasicBlock) int {
		for i, q := range J.Preds {
			if q == p {
				return i
			}
		}
		return -1
	}
	iT, iF := idx(predT), idx(predF)
	if iT < 0 || iF < 0 || iT == iF {
		return false
	}
	over := map[*ssa.Phi]Value{}
	for _, ins := range J.Instrs {
		phi, ok := ins.(*ssa.Phi)
		if !ok {
			break
		}
		vT, vF := fr.get(phi.Edges[iT]), fr.get(phi.Edges[iF])
		m, ok := fr.in.mergeVal(c, vT, vF)
		if !ok {
			return false
		}
		over[phi] = m
	}
	fr.phiOverride = over
	fr.prev, fr.block = predT, J
	atomic.AddInt64(&fr.in.run.ifconv, 1)
	return true
}

func jumpTarget(b *ssa.BasicBlock) *ssa.BasicBlock {
	if len(b.Instrs) == 0 {
		return nil
	}
	if _, ok := b.Instrs[len(b.Instrs)-1].(*ssa.Jump); ok {
		return b.Succs[0]
	}
	return nil
}

func (fr *frame) armStaticallyPure(arm *ssa.BasicBlock) bool {
	if arm == nil {
		return true
	}
	if len(arm.Instrs) > maxArm {
		return false
	}
	for _, ins := range arm.Instrs[:len(arm.Instrs)-1] {
		switch x := ins.(type) {
		case *ssa.DebugRef, *ssa.ChangeType, *ssa.ChangeInterface, *ssa.MakeInterface, *ssa.Extract, *ssa.Field, *ssa.FieldAddr:
		case *ssa.BinOp:
			switch x.Op {
			case token.QUO, token.REM:
				return false
			case token.SHL, token.SHR:
				if _, isConst := x.Y.(*ssa.Const); !isConst {
					if ii, ok := basicInfo(x.Y.Type()); !ok || ii.signed {
						return false
					}
				}
			}
		case *ssa.UnOp:
			if x.Op == token.ARROW {
				return false
			}
		case *ssa.Convert:
			_, ok1 := basicInfo(x.X.Type())
			_, ok2 := basicInfo(x.Type())
			if !ok1 || !ok2 {
				return false
			}
		default:
			return false
		}
	}
	return true
}

// runArm evaluates the pure instructions of an arm; returns false (without side effects other
// than register writes) when something could panic.
func (fr *frame) runArm(arm *ssa.BasicBlock) bool {
	if arm == nil {
		return true
	}
	for _, ins := range arm.Instrs[:len(arm.Instrs)-1] {
		switch x := ins.(type) {
		case *ssa.UnOp:
			if x.Op == token.MUL {
				p, ok := fr.get(x.X).(*Pointer)
				if !ok || p == nil {
					return false
				}
				if len(p.path) > 0 && p.path[len(p.path)-1] < 0 {
					return false
				}
			} else if _, ok := fr.get(x.X).(*Term); !ok {
				return false
			}
		case *ssa.FieldAddr:
			p, ok := fr.get(x.X).(*Pointer)
			if !ok || p == nil || (len(p.path) > 0 && p.path[len(p.path)-1] < 0) {
				return false
			}
		case *ssa.Field:
			if _, ok := fr.get(x.X).(*StructV); !ok {
				return false
			}
		case *ssa.BinOp:
			if _, ok := fr.get(x.X).(*Term); !ok {
				if _, isStr := fr.get(x.X).(*StringV); isStr {
					return false
				}
				if x.Op != token.EQL && x.Op != token.NEQ {
					return false
				}
				if _, isP := fr.get(x.X).(*PoisonV); isP {
					return false
				}
				if _, isSl := fr.get(x.X).(*SliceV); isSl {
					y, _ := fr.get(x.Y).(*SliceV)
					if y == nil || (y.base != nil || y.box != nil) && (fr.get(x.X).(*SliceV).base != nil || fr.get(x.X).(*SliceV).box != nil) {
						return false
					}
				}
			}
		case *ssa.Convert:
			if _, ok := fr.get(x.X).(*Term); !ok {
				return false
			}
		}
		fr.exec(ins)
	}
	return true
}

var _ = types.Typ
