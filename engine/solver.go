package main

// Persistent SMT solver processes (z3 5.x as z3-new, cvc5, z3 4.8). One process is kept alive per
// role; terms are sent once as global define-funs; the assertion stack mirrors the path condition
// (one push level per conjunct) so consecutive queries along one path are incremental.

import (
	"bufio"
	"fmt"
	"io"
	"math/big"
	"os/exec"
	"strings"
	"sync/atomic"
	"time"
)

type Result int

const (
	Unsat Result = iota
	Sat
	Unknown
)

func (r Result) String() string { return [...]string{"unsat", "sat", "unknown"}[r] }

type Solver struct {
	name    string
	argv    []string
	cmd     *exec.Cmd
	in      io.WriteCloser
	out     *bufio.Reader
	defined map[int]bool
	stack   []*Term // asserted conjuncts, one push level each
	tlimit  time.Duration
	Queries int
	Time    time.Duration
	Errors  []string
	marker  int
	dead    bool
	interrupted bool
	writeFailed bool
	Interrupts  int
	logw    io.Writer
}

var solverSpawned int64

func solverArgv(kind string, ms int) []string {
	switch kind {
	case "z3new":
		return []string{"z3-new", "-in", fmt.Sprintf("-t:%d", ms)}
	case "z3":
		return []string{"z3", "-in", fmt.Sprintf("-t:%d", ms)}
	case "cvc5":
		return []string{"cvc5", "--incremental", "--produce-models", fmt.Sprintf("--tlimit-per=%d", ms), "--lang=smt2"}
	case "cvc5int":
		return []string{"cvc5", "--incremental", "--produce-models", fmt.Sprintf("--tlimit-per=%d", ms), "--lang=smt2", "--solve-bv-as-int=sum"}
	}
	panic("unknown solver " + kind)
}

func NewSolver(kind string, limit time.Duration) *Solver {
	s := &Solver{name: kind, argv: solverArgv(kind, int(limit/time.Millisecond)), tlimit: limit}
	s.start()
	return s
}

func (s *Solver) start() {
	atomic.AddInt64(&solverSpawned, 1)
	s.cmd = exec.Command(s.argv[0], s.argv[1:]...)
	var err error
	s.in, err = s.cmd.StdinPipe()
	if err != nil {
		panic(err)
	}
	op, err := s.cmd.StdoutPipe()
	if err != nil {
		panic(err)
	}
	s.cmd.Stderr = nil
	s.out = bufio.NewReaderSize(op, 1<<20)
	if err := s.cmd.Start(); err != nil {
		panic(err)
	}
	s.defined = map[int]bool{}
	s.stack = nil
	s.dead = false
	s.writeFailed = false
	s.send("(set-option :global-declarations true)")
	s.send("(set-option :produce-models true)")
	s.send("(set-logic ALL)")
}

func (s *Solver) Close() {
	if s.cmd != nil && s.cmd.Process != nil {
		s.in.Close()
		s.cmd.Process.Kill()
		s.cmd.Wait()
	}
	s.dead = true
}

func (s *Solver) restart() {
	s.Close()
	s.start()
}

func (s *Solver) send(line string) {
	if s.logw != nil {
		fmt.Fprintln(s.logw, line)
	}
	if _, err := io.WriteString(s.in, line+"\n"); err != nil {
		if !s.interrupted && !s.writeFailed {
			s.Errors = append(s.Errors, "write: "+err.Error())
		}
		s.writeFailed = true
	}
}

// define makes sure t (and everything below it) is known to the solver, returns its reference.
func (s *Solver) define(t *Term) string {
	if t.op == "const" {
		return t.ref()
	}
	if s.defined[t.id] {
		return t.ref()
	}
	// iterative post-order to keep Go stack small on deep terms
	type frame struct {
		t *Term
		i int
	}
	st := []frame{{t, 0}}
	for len(st) > 0 {
		f := &st[len(st)-1]
		if f.t.op == "const" || s.defined[f.t.id] {
			st = st[:len(st)-1]
			continue
		}
		if f.i < len(f.t.args) {
			a := f.t.args[f.i]
			f.i++
			if a.op != "const" && !s.defined[a.id] {
				st = append(st, frame{a, 0})
			}
			continue
		}
		if f.t.op == "var" {
			s.send(fmt.Sprintf("(declare-const %s %s)", smtName(f.t.name), f.t.sort))
		} else {
			s.send(fmt.Sprintf("(define-fun t%d () %s %s)", f.t.id, f.t.sort, f.t.def()))
		}
		s.defined[f.t.id] = true
		st = st[:len(st)-1]
	}
	return t.ref()
}

// sync makes the solver's assertion stack equal to pc.
func (s *Solver) sync(pc []*Term) {
	k := 0
	for k < len(pc) && k < len(s.stack) && pc[k] == s.stack[k] {
		k++
	}
	if n := len(s.stack) - k; n > 0 {
		s.send(fmt.Sprintf("(pop %d)", n))
		s.stack = s.stack[:k]
	}
	for _, c := range pc[k:] {
		r := s.define(c)
		s.send("(push 1)")
		s.send("(assert " + r + ")")
		s.stack = append(s.stack, c)
	}
}

func (s *Solver) readUntilMarker() ([]string, bool) {
	s.marker++
	mk := fmt.Sprintf("@@%d", s.marker)
	s.send(fmt.Sprintf("(echo \"%s\")", mk))
	type res struct {
		lines []string
		ok    bool
	}
	ch := make(chan res, 1)
	go func() {
		var lines []string
		for {
			l, err := s.out.ReadString('\n')
			l = strings.TrimSpace(l)
			if strings.Trim(l, "\"") == mk {
				ch <- res{lines, true}
				return
			}
			if l != "" {
				lines = append(lines, l)
			}
			if err != nil {
				ch <- res{lines, false}
				return
			}
		}
	}()
	select {
	case r := <-ch:
		return r.lines, r.ok
	case <-time.After(s.tlimit + 20*time.Second):
		return nil, false
	}
}

// Check decides pc ∧ extra. With wantModel the values of vars are returned on sat.
func (s *Solver) Check(pc []*Term, extra *Term, vars []*Term) (Result, map[string]*big.Int) {
	t0 := time.Now()
	defer func() { s.Time += time.Since(t0); s.Queries++ }()
	if s.dead {
		s.start()
	}
	if s.interrupted {
		// killed after it had already answered the previous query: start afresh
		s.interrupted = false
		s.restart()
	}
	s.sync(pc)
	var refs []string
	for _, v := range vars {
		refs = append(refs, s.define(v))
	}
	if extra != nil {
		r := s.define(extra)
		s.send("(push 1)")
		s.send("(assert " + r + ")")
	}
	s.send("(check-sat)")
	lines, ok := s.readUntilMarker()
	if !ok {
		if s.interrupted {
			s.interrupted = false
			s.Interrupts++
		} else {
			s.Errors = append(s.Errors, "solver died or hard timeout")
		}
		s.restart()
		return Unknown, nil
	}
	res := Unknown
	bad := false
	for _, l := range lines {
		switch {
		case l == "sat":
			res = Sat
		case l == "unsat":
			res = Unsat
		case l == "unknown":
			res = Unknown
		case strings.Contains(l, "(error"):
			bad = true
			s.Errors = append(s.Errors, l)
		}
	}
	if bad {
		res = Unknown
	}
	var model map[string]*big.Int
	if res == Sat && len(vars) > 0 {
		model = map[string]*big.Int{}
		// ask in chunks to keep lines manageable
		for i := 0; i < len(vars); i += 200 {
			j := i + 200
			if j > len(vars) {
				j = len(vars)
			}
			s.send("(get-value (" + strings.Join(refs[i:j], " ") + "))")
			out, ok := s.readUntilMarker()
			if !ok {
				s.Errors = append(s.Errors, "get-value failed")
				s.restart()
				return Unknown, nil
			}
			vals := parseValues(strings.Join(out, " "))
			if len(vals) != j-i {
				s.Errors = append(s.Errors, fmt.Sprintf("get-value: expected %d values got %d: %s", j-i, len(vals), strings.Join(out, " ")))
				bad = true
				break
			}
			for k, v := range vals {
				model[vars[i+k].name] = v
			}
		}
		if bad {
			res = Unknown
			model = nil
		}
	}
	if extra != nil {
		s.send("(pop 1)")
	}
	return res, model
}

// parseValues parses "((name val) (name val) ...)" where val is #x.., #b.., decimal, (- n), true/false.
func parseValues(sx string) []*big.Int {
	toks := tokenize(sx)
	var out []*big.Int
	// expect ( ( name val ) ... )
	i := 0
	next := func() string {
		if i < len(toks) {
			i++
			return toks[i-1]
		}
		return ""
	}
	if next() != "(" {
		return nil
	}
	for i < len(toks) {
		t := next()
		if t == ")" {
			break
		}
		if t != "(" {
			return nil
		}
		next() // name (single token: |..| or tN)
		v := next()
		var val *big.Int
		switch {
		case v == "(":
			op := next()
			if op == "-" {
				n := next()
				val, _ = new(big.Int).SetString(n, 10)
				if val != nil {
					val.Neg(val)
				}
				next() // )
			} else if op == "_" { // (_ bvN w)
				n := next()
				next()
				next()
				val, _ = new(big.Int).SetString(strings.TrimPrefix(n, "bv"), 10)
			} else {
				return nil
			}
		case strings.HasPrefix(v, "#x"):
			val, _ = new(big.Int).SetString(v[2:], 16)
		case strings.HasPrefix(v, "#b"):
			val, _ = new(big.Int).SetString(v[2:], 2)
		case v == "true":
			val = big.NewInt(1)
		case v == "false":
			val = big.NewInt(0)
		default:
			val, _ = new(big.Int).SetString(v, 10)
		}
		if val == nil {
			return nil
		}
		if next() != ")" {
			return nil
		}
		out = append(out, val)
	}
	return out
}

func tokenize(s string) []string {
	var toks []string
	i := 0
	for i < len(s) {
		c := s[i]
		switch {
		case c == ' ' || c == '\n' || c == '\t' || c == '\r':
			i++
		case c == '(' || c == ')':
			toks = append(toks, string(c))
			i++
		case c == '|':
			j := strings.IndexByte(s[i+1:], '|')
			if j < 0 {
				return toks
			}
			toks = append(toks, s[i:i+j+2])
			i += j + 2
		default:
			j := i
			for j < len(s) && !strings.ContainsRune(" \n\t\r()", rune(s[j])) {
				j++
			}
			toks = append(toks, s[i:j])
			i = j
		}
	}
	return toks
}
