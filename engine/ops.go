package main

import (
	"fmt"
	"go/token"
	"go/types"
	"math/big"
)

// ---- scalar coercion between the BV and Int encodings ----

func toInt(t *Term, signed bool) *Term {
	if t.sort.K == SInt {
		return t
	}
	if t.sort.K != SBV {
		panic("toInt of " + t.sort.String())
	}
	if t.IsConst() {
		if signed {
			return IntConstBig(signedVal(t.c, t.sort.W))
		}
		return IntConstBig(t.c)
	}
	n := BV2Nat(t)
	if signed {
		w := t.sort.W
		return Ite(IGe(n, IntConstBig(pow2(w-1))), ISub(n, IntConstBig(pow2(w))), n)
	}
	return n
}

// wrapU brings an Int term known to be in (-2^w, 2^(w+1)) back into [0,2^w) (add/sub), or any
// term via mod (mul).
func wrapAddU(t *Term, w int) *Term {
	m := IntConstBig(pow2(w))
	return Ite(IGe(t, m), ISub(t, m), t)
}
func wrapSubU(t *Term, w int) *Term {
	m := IntConstBig(pow2(w))
	return Ite(ILt(t, IntConst(0)), IAdd(t, m), t)
}
func wrapModU(t *Term, w int) *Term { return IMod(t, IntConstBig(pow2(w))) }
func wrapS(t *Term, w int) *Term {
	// ((t + 2^(w-1)) mod 2^w) - 2^(w-1)
	h := IntConstBig(pow2(w - 1))
	return ISub(IMod(IAdd(t, h), IntConstBig(pow2(w))), h)
}
func wrapAddS(t *Term, w int) *Term {
	m := IntConstBig(pow2(w))
	h := IntConstBig(pow2(w - 1))
	nh := IntConstBig(new(big.Int).Neg(pow2(w - 1)))
	return Ite(IGe(t, h), ISub(t, m), Ite(ILt(t, nh), IAdd(t, m), t))
}

func isIntSorted(t *Term) bool { return t.sort.K == SInt }

// ---- binary operations ----

func (in *Interp) binop(op token.Token, xt types.Type, xv, yv Value, yt types.Type) Value {
	switch x := xv.(type) {
	case *Term:
		y, ok := yv.(*Term)
		if !ok {
			panic(fmt.Sprintf("binop %s: scalar vs %T", op, yv))
		}
		if isBool(xt) {
			switch op {
			case token.EQL:
				return Eq(x, y)
			case token.NEQ:
				return Not(Eq(x, y))
			case token.AND, token.LAND:
				return And(x, y)
			case token.OR, token.LOR:
				return Or(x, y)
			}
			panic("bool binop " + op.String())
		}
		ii, ok := basicInfo(xt)
		if !ok {
			panic("binop on non-integer scalar " + xt.String())
		}
		if op == token.SHL || op == token.SHR {
			yi, _ := basicInfo(yt)
			return in.shift(op, ii, x, y, yi)
		}
		if isIntSorted(x) || isIntSorted(y) {
			return in.intBinop(op, ii, toInt(x, ii.signed), toInt(y, ii.signed))
		}
		return in.bvBinop(op, ii, x, y)
	case *StringV:
		y := yv.(*StringV)
		switch op {
		case token.ADD:
			return in.strConcat(x, y)
		case token.EQL:
			return strEq(x, y)
		case token.NEQ:
			return Not(strEq(x, y))
		case token.LSS:
			return in.strLess(x, y)
		case token.GTR:
			return in.strLess(y, x)
		case token.LEQ:
			return Not(in.strLess(y, x))
		case token.GEQ:
			return Not(in.strLess(x, y))
		}
		panic("string binop " + op.String())
	}
	switch op {
	case token.EQL:
		return in.valEq(xv, yv)
	case token.NEQ:
		return Not(in.valEq(xv, yv))
	}
	if _, ok := xv.(*PoisonV); ok {
		in.unsupported("operation on poison value")
	}
	panic(fmt.Sprintf("binop %s on %T", op, xv))
}

func (in *Interp) bvBinop(op token.Token, ii intInfo, x, y *Term) Value {
	if x.sort != y.sort {
		panic(fmt.Sprintf("bvBinop %s: %v vs %v", op, x.sort, y.sort))
	}
	switch op {
	case token.ADD:
		return BVAdd(x, y)
	case token.SUB:
		return BVSub(x, y)
	case token.MUL:
		return BVMul(x, y)
	case token.QUO:
		in.branchPanic(Eq(y, BVConst(ii.w, 0)), "integer divide by zero")
		if ii.signed {
			return BVSDiv(x, y)
		}
		return BVUDiv(x, y)
	case token.REM:
		in.branchPanic(Eq(y, BVConst(ii.w, 0)), "integer divide by zero")
		if ii.signed {
			return BVSRem(x, y)
		}
		return BVURem(x, y)
	case token.AND:
		return BVAnd(x, y)
	case token.OR:
		return BVOr(x, y)
	case token.XOR:
		return BVXor(x, y)
	case token.AND_NOT:
		return BVAnd(x, BVNot(y))
	case token.EQL:
		return Eq(x, y)
	case token.NEQ:
		return Not(Eq(x, y))
	case token.LSS:
		if ii.signed {
			return BVSlt(x, y)
		}
		return BVUlt(x, y)
	case token.LEQ:
		if ii.signed {
			return BVSle(x, y)
		}
		return BVUle(x, y)
	case token.GTR:
		if ii.signed {
			return BVSgt(x, y)
		}
		return BVUgt(x, y)
	case token.GEQ:
		if ii.signed {
			return BVSge(x, y)
		}
		return BVUge(x, y)
	}
	panic("bvBinop " + op.String())
}

func (in *Interp) intBinop(op token.Token, ii intInfo, x, y *Term) Value {
	w := ii.w
	switch op {
	case token.ADD:
		if ii.signed {
			return wrapAddS(IAdd(x, y), w)
		}
		return wrapAddU(IAdd(x, y), w)
	case token.SUB:
		if ii.signed {
			return wrapAddS(ISub(x, y), w)
		}
		return wrapSubU(ISub(x, y), w)
	case token.MUL:
		if ii.signed {
			return wrapS(IMul(x, y), w)
		}
		return wrapModU(IMul(x, y), w)
	case token.QUO:
		in.branchPanic(Eq(y, IntConst(0)), "integer divide by zero")
		if ii.signed {
			// truncated division from Euclidean div: sign cases
			ax := Ite(ILt(x, IntConst(0)), ISub(IntConst(0), x), x)
			ay := Ite(ILt(y, IntConst(0)), ISub(IntConst(0), y), y)
			q := IDiv(ax, ay)
			neg := Not(Eq(ILt(x, IntConst(0)), ILt(y, IntConst(0))))
			return wrapS(Ite(neg, ISub(IntConst(0), q), q), w)
		}
		return IDiv(x, y)
	case token.REM:
		in.branchPanic(Eq(y, IntConst(0)), "integer divide by zero")
		if ii.signed {
			ax := Ite(ILt(x, IntConst(0)), ISub(IntConst(0), x), x)
			ay := Ite(ILt(y, IntConst(0)), ISub(IntConst(0), y), y)
			r := IMod(ax, ay)
			return Ite(ILt(x, IntConst(0)), ISub(IntConst(0), r), r)
		}
		return IMod(x, y)
	case token.EQL:
		return Eq(x, y)
	case token.NEQ:
		return Not(Eq(x, y))
	case token.LSS:
		return ILt(x, y)
	case token.LEQ:
		return ILe(x, y)
	case token.GTR:
		return IGt(x, y)
	case token.GEQ:
		return IGe(x, y)
	case token.AND:
		// only masks 2^k-1 are expressible
		if y.IsConst() {
			if k, ok := maskBits(y.c); ok {
				return IMod(x, IntConstBig(pow2(k)))
			}
		}
		if x.IsConst() {
			if k, ok := maskBits(x.c); ok {
				return IMod(y, IntConstBig(pow2(k)))
			}
		}
	}
	in.unsupported("int-mode bit operation " + op.String())
	return nil
}

func maskBits(c *big.Int) (int, bool) {
	if c.Sign() < 0 {
		return 0, false
	}
	k := c.BitLen()
	if new(big.Int).Add(c, bigOne).Cmp(pow2(k)) == 0 {
		return k, true
	}
	return 0, false
}

func (in *Interp) shift(op token.Token, ii intInfo, x, y *Term, yi intInfo) Value {
	if isIntSorted(x) || isIntSorted(y) {
		if !y.IsConst() {
			in.unsupported("int-mode shift by symbolic amount")
		}
		yv := y.c
		if y.sort.K == SBV && yi.signed {
			yv = signedVal(y.c, y.sort.W)
		}
		if yv.Sign() < 0 {
			in.goPanic("negative shift amount")
		}
		k := int(yv.Int64())
		xi := toInt(x, ii.signed)
		if op == token.SHL {
			if k >= ii.w {
				return IntConst(0)
			}
			p := IMul(xi, IntConstBig(pow2(k)))
			if ii.signed {
				return wrapS(p, ii.w)
			}
			return wrapModU(p, ii.w)
		}
		if k >= ii.w {
			if ii.signed {
				return Ite(ILt(xi, IntConst(0)), IntConst(-1), IntConst(0))
			}
			return IntConst(0)
		}
		return IDiv(xi, IntConstBig(pow2(k))) // floor division == arithmetic shift for negatives too
	}
	w := ii.w
	yw := y.sort.W
	if yi.signed {
		in.branchPanic(BVSlt(y, BVConst(yw, 0)), "negative shift amount")
	}
	// amount >= w ?
	var big_ *Term
	if yw >= 8 || w < (1<<uint(yw)) {
		if pow2(yw).Cmp(big.NewInt(int64(w))) > 0 {
			big_ = BVUge(y, BVConst(yw, int64(w)))
		} else {
			big_ = False
		}
	} else {
		big_ = False
	}
	var ys *Term
	if yw > w {
		ys = Extract(y, w-1, 0)
	} else {
		ys = ZeroExt(y, w)
	}
	if op == token.SHL {
		return Ite(big_, BVConst(w, 0), BVShl(x, ys))
	}
	if ii.signed {
		return Ite(big_, BVAshr(x, BVConst(w, int64(w-1))), BVAshr(x, ys))
	}
	return Ite(big_, BVConst(w, 0), BVLshr(x, ys))
}

func (in *Interp) unop(op token.Token, t types.Type, xv Value) Value {
	x, ok := xv.(*Term)
	if !ok {
		panic(fmt.Sprintf("unop %s on %T", op, xv))
	}
	switch op {
	case token.NOT:
		return Not(x)
	case token.SUB:
		ii, _ := basicInfo(t)
		if isIntSorted(x) {
			if ii.signed {
				return wrapS(ISub(IntConst(0), x), ii.w)
			}
			return wrapSubU(ISub(IntConst(0), x), ii.w)
		}
		return BVNeg(x)
	case token.XOR:
		ii, _ := basicInfo(t)
		if isIntSorted(x) {
			if ii.signed {
				return ISub(IntConst(-1), x)
			}
			return ISub(IntConstBig(new(big.Int).Sub(pow2(ii.w), bigOne)), x)
		}
		return BVNot(x)
	}
	panic("unop " + op.String())
}

// convert between integer types
func (in *Interp) convertInt(x *Term, from, to intInfo) *Term {
	if isIntSorted(x) {
		// value is in from's range; bring into to's range
		if from == to {
			return x
		}
		if !to.signed {
			if !from.signed && from.w <= to.w {
				return x
			}
			return wrapModU(x, to.w)
		}
		// to signed
		if from.w < to.w || (from.signed && from.w == to.w) {
			return x
		}
		return wrapS(x, to.w)
	}
	if x.sort.K != SBV {
		panic("convertInt of " + x.sort.String())
	}
	if to.w == from.w {
		return x
	}
	if to.w < from.w {
		return Extract(x, to.w-1, 0)
	}
	if from.signed {
		return SignExt(x, to.w)
	}
	return ZeroExt(x, to.w)
}

// ---- strings ----

func (s *StringV) lenTerm() *Term {
	if s.n != nil {
		return s.n
	}
	return goInt(len(s.b))
}

func strEq(a, b *StringV) *Term {
	la, lb := a.lenTerm(), b.lenTerm()
	if la.IsConst() && lb.IsConst() {
		if la.c.Cmp(lb.c) != 0 {
			return False
		}
		n := int(la.c.Int64())
		cs := make([]*Term, 0, n)
		for i := 0; i < n; i++ {
			e := Eq(a.b[i], b.b[i])
			if e == False {
				return False
			}
			cs = append(cs, e)
		}
		return And(cs...)
	}
	la, lb = sameSortPair(la, lb)
	cs := []*Term{Eq(la, lb)}
	m := len(a.b)
	if len(b.b) < m {
		m = len(b.b)
		cs = append(cs, lenLe(la, m))
	} else if len(a.b) < len(b.b) {
		cs = append(cs, lenLe(lb, m))
	}
	for i := 0; i < m; i++ {
		cs = append(cs, Or(lenLe(la, i), Eq(a.b[i], b.b[i])))
	}
	return And(cs...)
}

// lenLe: l <= k for a length term of either encoding
func lenLe(l *Term, k int) *Term {
	if l.sort.K == SInt {
		return ILe(l, IntConst(int64(k)))
	}
	return BVSle(l, BVConst(l.sort.W, int64(k)))
}
func lenLt(l *Term, k int) *Term {
	if l.sort.K == SInt {
		return ILt(l, IntConst(int64(k)))
	}
	return BVSlt(l, BVConst(l.sort.W, int64(k)))
}
func lenEq(l *Term, k int) *Term {
	if l.sort.K == SInt {
		return Eq(l, IntConst(int64(k)))
	}
	return Eq(l, BVConst(l.sort.W, int64(k)))
}

func sameSortPair(a, b *Term) (*Term, *Term) {
	if a.sort == b.sort {
		return a, b
	}
	if a.sort.K == SInt && b.sort.K == SBV {
		return a, bvAsInt(b)
	}
	if b.sort.K == SInt && a.sort.K == SBV {
		return bvAsInt(a), b
	}
	panic(fmt.Sprintf("sameSortPair %v %v", a.sort, b.sort))
}

func (in *Interp) strConcat(a, b *StringV) Value {
	if a.n != nil && !a.n.IsConst() {
		// concretise a's length by forking
		k := in.concretize(a.n, 0, len(a.b))
		a = &StringV{b: a.b[:k]}
	} else if a.n != nil {
		a = &StringV{b: a.b[:int(a.n.c.Int64())]}
	}
	r := &StringV{b: append(append([]*Term{}, a.b...), b.b...)}
	if b.n != nil {
		if b.n.IsConst() {
			r.b = r.b[:len(a.b)+int(b.n.c.Int64())]
		} else {
			bn := b.n
			if bn.sort.K == SInt {
				r.n = IAdd(bn, IntConst(int64(len(a.b))))
			} else {
				r.n = BVAdd(bn, goInt(len(a.b)))
			}
		}
	}
	return r
}

func (in *Interp) strLess(a, b *StringV) *Term {
	// lexicographic; requires concrete lengths (fork otherwise)
	an, bn := in.strLenConcrete(a), in.strLenConcrete(b)
	m := an
	if bn < m {
		m = bn
	}
	res := BoolConst(an < bn)
	for i := m - 1; i >= 0; i-- {
		x, y := sameSortPair(a.b[i], b.b[i])
		if x.sort.K == SInt {
			res = Ite(ILt(x, y), True, Ite(IGt(x, y), False, res))
		} else {
			res = Ite(BVUlt(x, y), True, Ite(BVUgt(x, y), False, res))
		}
	}
	return res
}

func (in *Interp) strLenConcrete(s *StringV) int {
	if s.n == nil {
		return len(s.b)
	}
	if s.n.IsConst() {
		return int(s.n.c.Int64())
	}
	return in.concretize(s.n, 0, len(s.b))
}

// ---- generic equality ----

func (in *Interp) valEq(a, b Value) *Term {
	switch x := a.(type) {
	case *Term:
		y, ok := b.(*Term)
		if !ok {
			return False
		}
		if x.sort != y.sort {
			if x.sort.K == SBool || y.sort.K == SBool {
				return False
			}
			x, y = sameSortPair(x, y)
		}
		return Eq(x, y)
	case *StructV:
		y, ok := b.(*StructV)
		if !ok || len(y.f) != len(x.f) {
			return False
		}
		cs := make([]*Term, 0, len(x.f))
		for i := range x.f {
			cs = append(cs, in.valEq(x.f[i], y.f[i]))
		}
		return And(cs...)
	case *ArrayV:
		y, ok := b.(*ArrayV)
		if !ok || len(y.e) != len(x.e) {
			return False
		}
		cs := make([]*Term, 0, len(x.e))
		for i := range x.e {
			cs = append(cs, in.valEq(x.e[i], y.e[i]))
		}
		return And(cs...)
	case *Pointer:
		y, ok := b.(*Pointer)
		if !ok {
			return False
		}
		return BoolConst(samePointer(x, y))
	case *StringV:
		y, ok := b.(*StringV)
		if !ok {
			return False
		}
		return strEq(x, y)
	case *IfaceV:
		y, ok := b.(*IfaceV)
		if !ok {
			// comparing interface with concrete nil pointer etc.
			return False
		}
		if x.T == nil || y.T == nil {
			return BoolConst(x.T == nil && y.T == nil)
		}
		if !types.Identical(x.T, y.T) {
			return False
		}
		return in.valEq(x.V, y.V)
	case *SliceV:
		y, ok := b.(*SliceV)
		if !ok {
			return False
		}
		// only comparable to nil
		xn := x.base == nil && x.box == nil
		yn := y.base == nil && y.box == nil
		if xn || yn {
			return BoolConst(xn && yn)
		}
		panic("slice == slice")
	case *MapObj:
		y, _ := b.(*MapObj)
		return BoolConst(x == y)
	case *FuncV:
		y, _ := b.(*FuncV)
		xn := x == nil || (x.Fn == nil && x.Builtin == nil && x.Native == nil)
		yn := y == nil || (y.Fn == nil && y.Builtin == nil && y.Native == nil)
		return BoolConst(xn && yn)
	case *ChanObj:
		y, _ := b.(*ChanObj)
		return BoolConst(x == y)
	case *PoisonV:
		in.unsupported("comparison with poison: " + x.why)
	}
	panic(fmt.Sprintf("valEq %T %T", a, b))
}

// mergeVal builds ite(c, a, b) structurally; ok=false if shapes differ.
func (in *Interp) mergeVal(c *Term, a, b Value) (Value, bool) {
	switch x := a.(type) {
	case *Term:
		y, ok := b.(*Term)
		if !ok {
			return nil, false
		}
		if x.sort != y.sort {
			if x.sort.K == SBool || y.sort.K == SBool {
				return nil, false
			}
			x, y = sameSortPair(x, y)
		}
		return Ite(c, x, y), true
	case *StructV:
		y, ok := b.(*StructV)
		if !ok || len(x.f) != len(y.f) {
			return nil, false
		}
		r := &StructV{f: make([]Value, len(x.f))}
		for i := range x.f {
			m, ok := in.mergeVal(c, x.f[i], y.f[i])
			if !ok {
				return nil, false
			}
			r.f[i] = m
		}
		return r, true
	case *ArrayV:
		y, ok := b.(*ArrayV)
		if !ok || len(x.e) != len(y.e) {
			return nil, false
		}
		r := &ArrayV{e: make([]Value, len(x.e))}
		for i := range x.e {
			m, ok := in.mergeVal(c, x.e[i], y.e[i])
			if !ok {
				return nil, false
			}
			r.e[i] = m
		}
		return r, true
	case *Pointer:
		y, ok := b.(*Pointer)
		if ok && samePointer(x, y) {
			return x, true
		}
		return nil, false
	case *StringV:
		y, ok := b.(*StringV)
		if !ok {
			return nil, false
		}
		if e := strEq(x, y); e == True {
			return x, true
		}
		if x.n == nil && y.n == nil && len(x.b) == len(y.b) {
			r := &StringV{b: make([]*Term, len(x.b))}
			for i := range x.b {
				r.b[i] = Ite(c, x.b[i], y.b[i])
			}
			return r, true
		}
		return nil, false
	case *IfaceV:
		y, ok := b.(*IfaceV)
		if !ok {
			return nil, false
		}
		if x.T == nil && y.T == nil {
			return x, true
		}
		if x.T == nil || y.T == nil || !types.Identical(x.T, y.T) {
			return nil, false
		}
		m, ok := in.mergeVal(c, x.V, y.V)
		if !ok {
			return nil, false
		}
		return &IfaceV{T: x.T, V: m}, true
	case *SliceV:
		y, ok := b.(*SliceV)
		if ok && samePointer(x.base, y.base) && x.box == y.box && x.off == y.off && x.cap == y.cap {
			if x.n == y.n {
				return x, true
			}
			xn, yn := sameSortPair(x.n, y.n)
			return &SliceV{base: x.base, off: x.off, cap: x.cap, box: x.box, n: Ite(c, xn, yn)}, true
		}
		return nil, false
	case *MapObj:
		y, ok := b.(*MapObj)
		if ok && x == y {
			return x, true
		}
		return nil, false
	}
	return nil, false
}
