package main

// More environment models: identity string encodings, process-seeded map hash.

import (
	"go/types"
	"hash/fnv"

	"golang.org/x/tools/go/ssa"
)

func init() {
	// hex/strings as the identity on bytes: injective and invertible, which is all callers rely on
	registerIntrinsic("ident.b2s", func(in *Interp, fn *ssa.Function, a []Value) Value {
		return in.stringOfBytes(a[0].(*SliceV))
	})
	registerIntrinsic("ident.s2b", func(in *Interp, fn *ssa.Function, a []Value) Value {
		return TupleV{in.bytesOfString(a[0].(*StringV)), in.nilErrorI()}
	})
	// lib.MemHash: process-seeded hash of bytes used as an in-memory map key. Concrete inputs get a
	// concrete FNV value; symbolic inputs an injective uninterpreted value.
	registerIntrinsic("memhash", func(in *Interp, fn *ssa.Function, a []Value) Value {
		s := a[0].(*SliceV)
		if s.box == nil {
			str := in.stringOfBytesLoose(s)
			if c, ok := str.concrete(); ok {
				h := fnv.New64a()
				h.Write([]byte(c))
				return BVConstU(64, h.Sum64())
			}
		}
		out := in.hashUF("memhash", s, 8)
		r := out[0]
		for _, b := range out[1:] {
			r = Concat(r, b)
		}
		return r
	})
}

func init() {
	count := func(in *Interp, s *StringV, c *Term) Value {
		n := in.strLenConcrete(s)
		res := goInt(0)
		for i := 0; i < n; i++ {
			res = BVAdd(res, Ite(Eq(s.b[i], c), goInt(1), goInt(0)))
		}
		return res
	}
	registerIntrinsic("internal/bytealg.CountString", func(in *Interp, fn *ssa.Function, a []Value) Value {
		return count(in, a[0].(*StringV), a[1].(*Term))
	})
	registerIntrinsic("internal/bytealg.Count", func(in *Interp, fn *ssa.Function, a []Value) Value {
		return count(in, in.stringOfBytes(a[0].(*SliceV)), a[1].(*Term))
	})
	registerIntrinsic("internal/bytealg.IndexString", func(in *Interp, fn *ssa.Function, a []Value) Value {
		s, sub := a[0].(*StringV), a[1].(*StringV)
		cs, ok1 := s.concrete()
		csub, ok2 := sub.concrete()
		if !ok1 || !ok2 {
			in.unsupported("bytealg.IndexString on symbolic strings")
		}
		for i := 0; i+len(csub) <= len(cs); i++ {
			if cs[i:i+len(csub)] == csub {
				return goInt(i)
			}
		}
		return BVConst(64, -1)
	})
}

// ---- anypb.Any as a typed box (lib.NewAny / lib.FromAny) ----

func structFieldIndex(t types.Type, name string) int {
	st, ok := t.Underlying().(*types.Struct)
	if !ok {
		return -1
	}
	for i := 0; i < st.NumFields(); i++ {
		if st.Field(i).Name() == name {
			return i
		}
	}
	return -1
}

func init() {
	registerIntrinsic("any.New", func(in *Interp, fn *ssa.Function, a []Value) Value {
		anyPtrT := fn.Signature.Results().At(0).Type()
		anyT := anyPtrT.Underlying().(*types.Pointer).Elem()
		iv, ok := a[0].(*IfaceV)
		if !ok || iv.T == nil {
			return TupleV{(*Pointer)(nil), in.opaqueError("NewAny(nil)")}
		}
		mt := in.marshalModel(iv).(TupleV)
		sv := in.zero(anyT).(*StructV)
		pt := iv.T.Underlying().(*types.Pointer)
		sv.f[structFieldIndex(anyT, "TypeUrl")] = mkString("type.googleapis.com/" + typeKey(pt.Elem()))
		sv.f[structFieldIndex(anyT, "Value")] = mt[0]
		o := in.newObject(anyT, sv, "anypb.Any")
		return TupleV{&Pointer{obj: o}, in.nilErrorI()}
	})
	registerIntrinsic("any.From", func(in *Interp, fn *ssa.Function, a []Value) Value {
		p, _ := a[0].(*Pointer)
		if p == nil {
			return TupleV{&IfaceV{}, in.opaqueError("FromAny(nil)")}
		}
		sv, ok := in.navigate(p).(*StructV)
		if !ok {
			in.unsupported("FromAny: not a struct")
		}
		var box *Box
		for _, f := range sv.f {
			if s, ok := f.(*SliceV); ok && s.box != nil {
				box = s.box
			}
		}
		if box == nil {
			// raw (attacker-chosen) bytes inside an Any: decoding is out of the model
			if in.decide(in.fresh("zz.fromany.raw.fails", BoolSort)) {
				return TupleV{&IfaceV{}, in.opaqueError("FromAny: undecodable")}
			}
			in.unsupported("FromAny of raw bytes succeeded (protobuf runtime out of reach)")
		}
		o := in.newObject(box.typ, in.deepSnapshot(box.val, 0, map[*Object]*Object{}), "fromany")
		return TupleV{&IfaceV{T: types.NewPointer(box.typ), V: &Pointer{obj: o}}, in.nilErrorI()}
	})
}

func init() {
	// HashString: the (identity-encoded) string of the uninterpreted hash - injective like the hash
	registerIntrinsic("hash32.string", func(in *Interp, fn *ssa.Function, a []Value) Value {
		return &StringV{b: in.hashUF("hash32", a[0], 32)}
	})
	registerIntrinsic("hash20.string", func(in *Interp, fn *ssa.Function, a []Value) Value {
		return &StringV{b: in.hashUF("hash20", a[0], 20)}
	})
}

func init() {
	// zzAltEncoding(bz, k): another byte string that decodes to the same message as bz (protobuf
	// has many encodings per message: explicit default-valued fields, field order, non-minimal varints)
	zzFuncs["zzAltEncoding"] = func(in *Interp, fn *ssa.Function, a []Value) Value {
		s, ok := a[0].(*SliceV)
		if !ok || s.box == nil {
			in.unsupported("zzAltEncoding of raw bytes")
		}
		k := in.constIdx(a[1].(*Term))
		in.boxes++
		nb := &Box{id: in.boxes, val: s.box.val, typ: s.box.typ, tag: s.box.tag + "'", alt: k}
		return &SliceV{box: nb}
	}
}
