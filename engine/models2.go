package main

// More environment models: identity string encodings, process-seeded map hash.

import (
	"hash/fnv"

	"golang.org/x/tools/go/ssa"
)

func init() {
	// hex/strings as the identity on bytes: injective and invertible, which is all callers rely on
	registerIntrinsic("ident.b2s", func(in *Interp, fn *ssa.Function, a []Value) Value {
		return in.stringOfBytes(a[0].(*SliceV))
	})
	registerIntrinsic("ident.s2b", func(in *Interp, fn *ssa.Function, a []Value) Value {
		return TupleV{in.bytesOfString(a[0].(*StringV)), in.nilErrorI()}
	})
	// lib.MemHash: process-seeded hash of bytes used as an in-memory map key. Concrete inputs get a
	// concrete FNV value; symbolic inputs an injective uninterpreted value.
	registerIntrinsic("memhash", func(in *Interp, fn *ssa.Function, a []Value) Value {
		s := a[0].(*SliceV)
		if s.box == nil {
			str := in.stringOfBytesLoose(s)
			if c, ok := str.concrete(); ok {
				h := fnv.New64a()
				h.Write([]byte(c))
				return BVConstU(64, h.Sum64())
			}
		}
		out := in.hashUF("memhash", s, 8)
		r := out[0]
		for _, b := range out[1:] {
			r = Concat(r, b)
		}
		return r
	})
}

func init() {
	count := func(in *Interp, s *StringV, c *Term) Value {
		n := in.strLenConcrete(s)
		res := goInt(0)
		for i := 0; i < n; i++ {
			res = BVAdd(res, Ite(Eq(s.b[i], c), goInt(1), goInt(0)))
		}
		return res
	}
	registerIntrinsic("internal/bytealg.CountString", func(in *Interp, fn *ssa.Function, a []Value) Value {
		return count(in, a[0].(*StringV), a[1].(*Term))
	})
	registerIntrinsic("internal/bytealg.Count", func(in *Interp, fn *ssa.Function, a []Value) Value {
		return count(in, in.stringOfBytes(a[0].(*SliceV)), a[1].(*Term))
	})
	registerIntrinsic("internal/bytealg.IndexString", func(in *Interp, fn *ssa.Function, a []Value) Value {
		s, sub := a[0].(*StringV), a[1].(*StringV)
		cs, ok1 := s.concrete()
		csub, ok2 := sub.concrete()
		if !ok1 || !ok2 {
			in.unsupported("bytealg.IndexString on symbolic strings")
		}
		for i := 0; i+len(csub) <= len(cs); i++ {
			if cs[i:i+len(csub)] == csub {
				return goInt(i)
			}
		}
		return BVConst(64, -1)
	})
}
