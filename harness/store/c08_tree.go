package store

import "bytes"

// C08 / T1: the state root as a function of the key/value set (tree level). The real NewSMT /
// Commit (valueOpToSMTNode, sort, commit loop, traverse, set, delete, rehash, updateParentValue)
// over the map store, keyBitLength = `keybits`, hash uninterpreted and injective, so the positions
// of the user keys are arbitrary symbolic bit strings (stated precondition: pairwise different and
// not one of the three reserved keys).
//   T1a  the tree reached by inserting the same keys in one batch, one by one, or one by one in the
//        other order is the same: same root AND the same set of stored nodes (history independence)
//   T1b  inserting a key and deleting it again restores the root and the stored node set exactly
//   T1c  the root binds the content: a different value under the same key, or an additional key,
//        gives a different root
//   T1d  overwriting a value equals building the tree with the final value

//zz:harness unwind=80 maxpaths=200000 timebudget=1500 panic=violation:T1.no-panic
//zz:reach T1a.done
func ZZ_C08_T1a_insertion_order_independent() {
	a, sa := zzNewTree()
	b, sb := zzNewTree()
	c, sc := zzNewTree()
	zzDistinctPositions(a, 2)
	zzCommit(a, zzSet(0), zzSet(1))
	zzCommit(b, zzSet(0))
	zzCommit(b, zzSet(1))
	zzCommit(c, zzSet(1))
	zzCommit(c, zzSet(0))
	zzAssert("T1a.same-root-batch-vs-sequential", bytes.Equal(a.Root(), b.Root()))
	zzAssert("T1a.same-root-either-order", bytes.Equal(b.Root(), c.Root()))
	zzAssert("T1a.same-nodes-batch-vs-sequential", zzSameKV(sa, sb))
	zzAssert("T1a.same-nodes-either-order", zzSameKV(sb, sc))
	zzReach("T1a.done")
}

//zz:harness unwind=80 maxpaths=200000 timebudget=1500 panic=violation:T1.no-panic
//zz:reach T1b.done
func ZZ_C08_T1b_insert_then_delete_restores() {
	a, sa := zzNewTree()
	b, sb := zzNewTree()
	zzDistinctPositions(a, 2)
	zzCommit(a, zzSet(0))
	zzCommit(b, zzSet(0))
	r0 := a.Root()
	zzCommit(a, zzSet(1))
	zzAssert("T1c.additional-key-changes-root", !bytes.Equal(a.Root(), r0))
	zzCommit(a, zzDel(1))
	zzAssert("T1b.root-restored", bytes.Equal(a.Root(), r0))
	zzAssert("T1b.nodes-restored", zzSameKV(sa, sb))
	// deleting a key that is not there changes nothing
	zzCommit(a, zzDel(1))
	zzAssert("T1b.delete-absent-is-noop", bytes.Equal(a.Root(), r0) && zzSameKV(sa, sb))
	zzReach("T1b.done")
}

//zz:harness unwind=80 maxpaths=200000 timebudget=1500 panic=violation:T1.no-panic
//zz:reach T1d.done
func ZZ_C08_T1d_overwrite_and_value_binding() {
	a, sa := zzNewTree()
	b, sb := zzNewTree()
	zzDistinctPositions(a, 2)
	zzCommit(a, zzSet(0), zzSet(1))
	r := a.Root()
	zzCommit(a, valueOp{key: zzUserKey(1), value: []byte{'w'}, op: opSet})
	zzAssert("T1c.other-value-changes-root", !bytes.Equal(a.Root(), r))
	zzCommit(b, zzSet(0), valueOp{key: zzUserKey(1), value: []byte{'w'}, op: opSet})
	zzAssert("T1d.overwrite-equals-fresh-root", bytes.Equal(a.Root(), b.Root()))
	zzAssert("T1d.overwrite-equals-fresh-nodes", zzSameKV(sa, sb))
	zzReach("T1d.done")
}

// T1e: a mixed batch (insert + delete + overwrite in ONE Commit, which shares traversals and defers
// re-hashing between neighbouring operations) reaches the same tree as the same operations
// committed one at a time, and as a tree built directly from the final content.
//
//zz:harness tier=thorough unwind=100 maxpaths=300000 timebudget=2400 panic=violation:T1.no-panic
//zz:reach T1e.done
func ZZ_C08_T1e_mixed_batch_equals_sequential() {
	a, sa := zzNewTree()
	b, sb := zzNewTree()
	c, sc := zzNewTree()
	zzDistinctPositions(a, 3)
	// common starting content {0, 1}
	zzCommit(a, zzSet(0), zzSet(1))
	zzCommit(b, zzSet(0), zzSet(1))
	w := valueOp{key: zzUserKey(1), value: []byte{'w'}, op: opSet}
	// one batch: delete 0, overwrite 1, insert 2
	zzCommit(a, zzDel(0), w, zzSet(2))
	// one at a time
	zzCommit(b, zzSet(2))
	zzCommit(b, zzDel(0))
	zzCommit(b, w)
	// directly
	zzCommit(c, w, zzSet(2))
	zzAssert("T1e.batch-equals-sequential-root", bytes.Equal(a.Root(), b.Root()))
	zzAssert("T1e.batch-equals-sequential-nodes", zzSameKV(sa, sb))
	zzAssert("T1e.batch-equals-direct-root", bytes.Equal(a.Root(), c.Root()))
	zzAssert("T1e.batch-equals-direct-nodes", zzSameKV(sa, sc))
	zzReach("T1e.done")
}

// T1f: the root binds values of every length, including values that have the size of a hash: two
// single-key trees holding arbitrary values of 0, 1, 31, 32 or 33 bytes have the same root only if
// the values are the same (a leaf must store the HASH of the value, whatever the value looks like -
// else {k: x} and {k: Hash(x)} would commit to the same root). A counterexample is at model level: it
// names a value that EQUALS a hash output, which the solver picks under the uninterpreted hash and
// a native run with SHA-256 cannot be handed.
//
//zz:harness unwind=80 maxpaths=200000 timebudget=1500 panic=violation:T1.no-panic replay=model
//zz:reach T1f.done T1f.same-root
func ZZ_C08_T1f_root_binds_values_of_any_length() {
	a, _ := zzNewTree()
	b, _ := zzNewTree()
	zzDistinctPositions(a, 1)
	lens := []int{0, 1, 31, 32, 33}
	va := zzBytes("va", lens[zzConcrete(zzInt("lenA"), 0, 4)])
	vb := zzBytes("vb", lens[zzConcrete(zzInt("lenB"), 0, 4)])
	zzCommit(a, valueOp{key: zzUserKey(0), value: va, op: opSet})
	zzCommit(b, valueOp{key: zzUserKey(0), value: vb, op: opSet})
	if bytes.Equal(a.Root(), b.Root()) {
		zzReach("T1f.same-root")
		zzAssert("T1f.equal-roots-mean-equal-values", bytes.Equal(va, vb))
	}
	zzReach("T1f.done")
}
