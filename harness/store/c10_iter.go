package store

import (
	"bytes"
	"context"
	"io"

	"github.com/canopy-network/canopy/lib"
	"github.com/cockroachdb/pebble/v2"
)

// C10 / V2: the versioned read path - VersionedStore.newVersionedIterator / Get / getRaw and
// VersionedIterator (first, advanceToNextKey, rewindToLatestVersion, step, Valid/Next/Key/Value),
// all four strategies (forward/reverse x seek/linear) - executed over a model of the pebble
// iterator: a cursor over the sorted list of raw (versioned key, value) entries that honours
// LowerBound / UpperBound (pebble's documented iterator contract; block-property filters only
// ever skip blocks that hold no admissible version and are not modelled).
//
// World: three user keys of equal shape under one prefix ([1]p[1]a, [1]p[1]b, [1]p[1]0xFF) plus a
// foreign key on each side of the prefix range; every user key has up to two stored versions with
// SYMBOLIC version numbers (hi > lo), symbolic presence, symbolic tombstone flags and values; the
// reader's version is symbolic. Reference semantics: a key is visible iff its newest stored version
// <= reader version exists and is alive; iteration yields exactly the visible keys of the prefix,
// each once, in (reverse) key order, with that version's value; Get returns the same.

//zz:stub (*github.com/cockroachdb/pebble/v2.Iterator).SeekGE harness zzItSeekGE
//zz:stub (*github.com/cockroachdb/pebble/v2.Iterator).SeekLT harness zzItSeekLT
//zz:stub (*github.com/cockroachdb/pebble/v2.Iterator).Next harness zzItNext
//zz:stub (*github.com/cockroachdb/pebble/v2.Iterator).Prev harness zzItPrev
//zz:stub (*github.com/cockroachdb/pebble/v2.Iterator).Valid harness zzItValid
//zz:stub (*github.com/cockroachdb/pebble/v2.Iterator).Key harness zzItKey
//zz:stub (*github.com/cockroachdb/pebble/v2.Iterator).ValueAndErr harness zzItValue
//zz:stub (*github.com/cockroachdb/pebble/v2.Iterator).Close harness zzItClose
//zz:stub github.com/canopy-network/canopy/store.newTargetWindowFilter noop

type zzRaw struct{ k, v []byte }

// zzCursor: the state of the (single) open pebble iterator.
type zzCursorT struct {
	all     []zzRaw // the whole database, sorted by raw key
	vis     []zzRaw // entries inside [lower, upper)
	pos     int     // -1 before first, len(vis) after last
	opens   int
	closes  int
}

var zzCursor zzCursorT

type zzReader struct{}

func (zzReader) Get(key []byte) ([]byte, io.Closer, error) { return nil, nil, pebble.ErrNotFound }
func (zzReader) Close() error                              { return nil }
func (zzReader) NewIterWithContext(_ context.Context, o *pebble.IterOptions) (*pebble.Iterator, error) {
	return zzReader{}.NewIter(o)
}
func (zzReader) NewIter(o *pebble.IterOptions) (*pebble.Iterator, error) {
	zzCursor.vis = nil
	for _, e := range zzCursor.all {
		if (o.LowerBound == nil || bytes.Compare(e.k, o.LowerBound) >= 0) && (o.UpperBound == nil || bytes.Compare(e.k, o.UpperBound) < 0) {
			zzCursor.vis = append(zzCursor.vis, e)
		}
	}
	zzCursor.pos = -1
	zzCursor.opens++
	return new(pebble.Iterator), nil
}

func zzItValid(it *pebble.Iterator) bool { return zzCursor.pos >= 0 && zzCursor.pos < len(zzCursor.vis) }
func zzItSeekGE(it *pebble.Iterator, key []byte) bool {
	zzCursor.pos = len(zzCursor.vis)
	for i, e := range zzCursor.vis {
		if bytes.Compare(e.k, key) >= 0 {
			zzCursor.pos = i
			break
		}
	}
	return zzItValid(it)
}
func zzItSeekLT(it *pebble.Iterator, key []byte) bool {
	zzCursor.pos = -1
	for i, e := range zzCursor.vis {
		if bytes.Compare(e.k, key) < 0 {
			zzCursor.pos = i
		}
	}
	return zzItValid(it)
}
func zzItNext(it *pebble.Iterator) bool {
	if zzCursor.pos < len(zzCursor.vis) {
		zzCursor.pos++
	}
	return zzItValid(it)
}
func zzItPrev(it *pebble.Iterator) bool {
	if zzCursor.pos >= 0 {
		zzCursor.pos--
	}
	return zzItValid(it)
}
func zzItKey(it *pebble.Iterator) []byte {
	if !zzItValid(it) {
		return nil
	}
	return zzCursor.vis[zzCursor.pos].k
}
func zzItValue(it *pebble.Iterator) ([]byte, error) {
	if !zzItValid(it) {
		return nil, nil
	}
	return zzCursor.vis[zzCursor.pos].v, nil
}
func zzItClose(it *pebble.Iterator) error { zzCursor.closes++; return nil }

type zzVer struct {
	present bool
	version uint64
	dead    bool
	val     byte
}

type zzUKey struct {
	key    []byte
	hi, lo zzVer // hi.version > lo.version
}

func zzVersionedWorld() (vs *VersionedStore, keys []zzUKey, prefix []byte) {
	vs = NewVersionedStore(zzReader{}, nil, zzU64("readerVersion"))
	prefix = lib.JoinLenPrefix([]byte{'p'})
	mk := func(name string, k []byte) zzUKey {
		u := zzUKey{key: k}
		u.hi = zzVer{zzBool(name + ".hi.present"), zzU64(name + ".hi.version"), zzBool(name + ".hi.dead"), zzU8(name + ".hi.val")}
		u.lo = zzVer{zzBool(name + ".lo.present"), zzU64(name + ".lo.version"), zzBool(name + ".lo.dead"), zzU8(name + ".lo.val")}
		zzAssume(u.hi.version > u.lo.version && u.lo.version >= 1)
		return u
	}
	add := func(u zzUKey) {
		for _, v := range []zzVer{u.hi, u.lo} { // ^version: the newer version sorts first
			if v.present {
				raw := vs.valueWithTombstone(AliveTombstone, []byte{v.val})
				if v.dead {
					raw = vs.valueWithTombstone(DeadTombstone, nil)
				}
				zzCursor.all = append(zzCursor.all, zzRaw{vs.makeVersionedKey(u.key, v.version), raw})
			}
		}
	}
	zzCursor = zzCursorT{}
	// a foreign key below the prefix range, three keys inside (ascending), a foreign key above
	foreign := func(name string, k []byte) zzUKey {
		// always stored, alive, one version (any number): it only has to be there
		return zzUKey{key: k, hi: zzVer{true, zzU64(name + ".version"), false, zzU8(name + ".val")}}
	}
	add(foreign("below", lib.JoinLenPrefix([]byte{'o'}, []byte{'z'})))
	n := zzParam("keys", 3)
	last := []byte{'a', 'b', 0xFF}
	for i := 0; i < n; i++ {
		u := mk("k"+string(rune('0'+i)), lib.JoinLenPrefix([]byte{'p'}, []byte{last[i]}))
		keys = append(keys, u)
		add(u)
	}
	add(foreign("above", lib.JoinLenPrefix([]byte{'q'}, []byte{'a'})))
	return
}

// reference: the newest stored version <= reader version, if any
func zzVisible(vs *VersionedStore, u zzUKey) (visible bool, val byte) {
	switch {
	case u.hi.present && u.hi.version <= vs.version:
		return !u.hi.dead, u.hi.val
	case u.lo.present && u.lo.version <= vs.version:
		return !u.lo.dead, u.lo.val
	}
	return false, 0
}

func zzIterate(tag string, reverse, seek bool) {
	vs, keys, prefix := zzVersionedWorld()
	it, err := vs.newVersionedIterator(prefix, reverse, seek)
	zzAssert(tag+".iterator-opens", err == nil)
	if err != nil {
		return
	}
	var gotK [][]byte
	var gotV [][]byte
	for i := 0; it.Valid() && i < len(keys)+2; i++ {
		gotK = append(gotK, it.Key())
		gotV = append(gotV, it.Value())
		it.Next()
	}
	it.Close()
	// expected sequence
	var wantK [][]byte
	var wantV []byte
	for i := range keys {
		j := i
		if reverse {
			j = len(keys) - 1 - i
		}
		if ok, v := zzVisible(vs, keys[j]); ok {
			wantK = append(wantK, keys[j].key)
			wantV = append(wantV, v)
		}
	}
	zzAssert(tag+".yields-exactly-the-visible-keys", len(gotK) == len(wantK))
	for i := range wantK {
		if i < len(gotK) {
			zzAssert(tag+".keys-in-order-each-once", bytes.Equal(gotK[i], wantK[i]))
			zzAssert(tag+".value-of-newest-visible-version", len(gotV[i]) == 1 && gotV[i][0] == wantV[i])
		}
	}
	zzAssert(tag+".iterator-closed", zzCursor.opens == zzCursor.closes)
	zzReach(tag + ".done")
}

//zz:harness unwind=60 maxpaths=200000 timebudget=1500 panic=violation:V2.no-panic param.keys@quick=2
//zz:reach V2.fwd-seek.done
func ZZ_C10_V2_forward_seek() { zzIterate("V2.fwd-seek", false, true) }

//zz:harness unwind=60 maxpaths=200000 timebudget=1500 panic=violation:V2.no-panic param.keys@quick=2
//zz:reach V2.fwd-linear.done
func ZZ_C10_V2_forward_linear() { zzIterate("V2.fwd-linear", false, false) }

//zz:harness unwind=60 maxpaths=200000 timebudget=1500 panic=violation:V2.no-panic param.keys@quick=2
//zz:reach V2.rev-seek.done
func ZZ_C10_V2_reverse_seek() { zzIterate("V2.rev-seek", true, true) }

//zz:harness unwind=60 maxpaths=200000 timebudget=1500 panic=violation:V2.no-panic param.keys@quick=2
//zz:reach V2.rev-linear.done
func ZZ_C10_V2_reverse_linear() { zzIterate("V2.rev-linear", true, false) }

// Get: the point read agrees with the reference for every key of the world, and an absent key
// (shares a prefix with stored keys) reads as nil.
//
//zz:harness unwind=60 maxpaths=200000 timebudget=1500 panic=violation:V2.no-panic param.keys@quick=2
//zz:reach V2.get.done
func ZZ_C10_V2_get() {
	vs, keys, _ := zzVersionedWorld()
	for _, u := range keys {
		val, err := vs.Get(u.key)
		zzAssert("V2.get.no-error", err == nil)
		ok, v := zzVisible(vs, u)
		if ok {
			zzAssert("V2.get.returns-newest-visible-version", len(val) == 1 && val[0] == v)
		} else {
			zzAssert("V2.get.hidden-or-absent-reads-nil", val == nil)
		}
	}
	val, err := vs.Get(lib.JoinLenPrefix([]byte{'p'}, []byte{'c'}))
	zzAssert("V2.get.never-stored-key-reads-nil", err == nil && val == nil)
	zzAssert("V2.get.iterators-closed", zzCursor.opens == zzCursor.closes)
	zzReach("V2.get.done")
}
