package store

import (
	"github.com/canopy-network/canopy/lib"
	"github.com/canopy-network/canopy/lib/crypto"
)

//zz:stub github.com/canopy-network/canopy/store.NewStoreInMemory harness zzNewMemStore
//zz:stub github.com/canopy-network/canopy/lib.NewDefaultLogger noop

func zzNewMemStore(log lib.LoggerI, configs ...lib.Config) (lib.StoreI, lib.ErrorI) {
	return &zzStore{}, nil
}

// ---------------------------------------------------------------------------------------------
// Tree level. A real tree is built with the real NewSMT / Commit (set, traverse, rehash) over
// the map store, with keyBitLength = `keybits` and an uninterpreted injective hash, so the leaf
// positions of the user keys are arbitrary symbolic bit strings. Stated preconditions (they hold
// with overwhelming probability at the production key length of 160 bits): the positions of
// different user keys differ, and none equals the reserved root / minimum / maximum key.
// ---------------------------------------------------------------------------------------------

func zzUserKey(i int) []byte { return []byte{'k', byte('0' + i)} }
func zzUserVal(i int) []byte { return []byte{'v', byte('0' + i)} }

func zzPos(s *SMT, k []byte) *key { return newNodeKey(crypto.Hash(k), s.keyBitLength) }

// zzTree: tree holding user keys 0..n-1 (present), with key n reserved as an absent key.
func zzTree(n int) *SMT {
	s := NewSMT(RootKey, zzParam("keybits", 4), &zzStore{})
	var pos []*key
	for i := 0; i <= n; i++ {
		p := zzPos(s, zzUserKey(i))
		zzAssume(s.validateTarget(&node{Key: p}) == nil)
		for _, q := range pos {
			zzAssume(!p.equals(q))
		}
		pos = append(pos, p)
	}
	ops := map[uint64]valueOp{}
	for i := 0; i < n; i++ {
		ops[uint64(i)] = valueOp{key: zzUserKey(i), value: zzUserVal(i), op: opSet}
	}
	if err := s.Commit(ops); err != nil {
		zzAssert("tree.commit-succeeds", false)
		zzStop()
	}
	return s
}


// zzNewTree: an empty tree (root + reserved border leaves) over a fresh map store.
func zzNewTree() (*SMT, *zzStore) {
	st := &zzStore{}
	return NewSMT(RootKey, zzParam("keybits", 4), st), st
}

// zzDistinctPositions: the stated precondition on the hash positions of user keys 0..n-1.
func zzDistinctPositions(s *SMT, n int) {
	var pos []*key
	for i := 0; i < n; i++ {
		p := zzPos(s, zzUserKey(i))
		zzAssume(s.validateTarget(&node{Key: p}) == nil)
		for _, q := range pos {
			zzAssume(!p.equals(q))
		}
		pos = append(pos, p)
	}
}

func zzCommit(s *SMT, ops ...valueOp) {
	m := map[uint64]valueOp{}
	for i, o := range ops {
		m[uint64(i)] = o
	}
	if err := s.Commit(m); err != nil {
		zzAssert("tree.commit-succeeds", false)
		zzStop()
	}
}

func zzSet(i int) valueOp { return valueOp{key: zzUserKey(i), value: zzUserVal(i), op: opSet} }
func zzDel(i int) valueOp { return valueOp{key: zzUserKey(i), op: opDelete} }
