package store

import (
	"bytes"

	"github.com/canopy-network/canopy/lib"
)

// C10 / V3, V4: reads through (nested) transactions. The real Txn (Get / Set / Delete / Iterator /
// RevIterator / NewIterator / Commit / Discard), TxnIterator (First / Valid / Next / Key / Value with
// delete shadowing) and BTreeIterator over the real google/btree code, on top of a parent reader
// that is a plain sorted list (the versioned store underneath is V2's subject).
//   V3  for every combination of {key stored in the parent or not} x {no pending op, pending set,
//       pending delete} over a small key universe (incl. a key outside the iterated prefix):
//       Get and forward / reverse iteration observe exactly the overlay parent (+) pending writes:
//       your own writes are visible, deletes hide, every visible key of the prefix is yielded once,
//       in order, with the right value
//   V4  two nesting levels: the inner transaction sees parent (+) outer (+) inner; after the inner
//       Commit the outer transaction shows the same content; after the inner Discard the outer
//       transaction is unchanged

type zzListReader struct{ items []zzKV } // sorted by key, keys carry the parent prefix

func (r *zzListReader) Get(k []byte) ([]byte, lib.ErrorI) {
	for _, e := range r.items {
		if bytes.Equal(e.k, k) {
			return e.v, nil
		}
	}
	return nil, nil
}
func (r *zzListReader) Close() lib.ErrorI { return nil }
// The parent's iterator is LAZY like the real VersionedIterator: it keeps the prefix slice it was
// given and positions itself only on the first Valid() / Next(); a caller that re-uses the memory
// of that slice in between changes what the iterator sees.
type zzLazyIter struct {
	r       *zzListReader
	prefix  []byte
	reverse bool
	ready   bool
	it      zzIter
}

func (l *zzLazyIter) init() {
	if l.ready {
		return
	}
	l.ready = true
	var items []zzKV
	for _, e := range l.r.items {
		if bytes.HasPrefix(e.k, l.prefix) {
			items = append(items, e)
		}
	}
	if l.reverse {
		for i, j := 0, len(items)-1; i < j; i, j = i+1, j-1 {
			items[i], items[j] = items[j], items[i]
		}
	}
	l.it = zzIter{items: items}
}
func (l *zzLazyIter) Valid() bool   { l.init(); return l.it.Valid() }
func (l *zzLazyIter) Next()         { l.init(); l.it.Next() }
func (l *zzLazyIter) Key() []byte   { l.init(); return l.it.Key() }
func (l *zzLazyIter) Value() []byte { l.init(); return l.it.Value() }
func (l *zzLazyIter) Close()        {}

func (r *zzListReader) NewIterator(prefix []byte, reverse bool, seek bool) (lib.IteratorI, lib.ErrorI) {
	return &zzLazyIter{r: r, prefix: prefix, reverse: reverse}, nil
}

var zzTxnPrefix = []byte("s/")

// universe: three keys under the iterated prefix "p" - the first one IS the prefix, byte for byte
// (seek positions are computed from the prefix, an exact match must not be mistaken for the end of
// the range) - and one outside it, ascending
var zzUniverse = [][]byte{[]byte("p"), []byte("pa"), []byte("pb"), []byte("qa")}

type zzCell struct {
	present bool
	val     byte
}

// zzOverlay applies a symbolic pending operation per key to model (reference) and txn (real).
func zzPending(name string, t *Txn, model []zzCell, n int) {
	for i := 0; i < n; i++ {
		switch zzConcrete(zzInt(name+".op"), 0, 2) {
		case 1:
			v := zzU8(name + ".val")
			if t.Set(zzUniverse[i], []byte{v}) != nil {
				panic("set")
			}
			model[i] = zzCell{true, v}
		case 2:
			if t.Delete(zzUniverse[i]) != nil {
				panic("delete")
			}
			model[i] = zzCell{}
		}
	}
}

func zzParentWorld(n int) (*zzListReader, []zzCell) {
	r := &zzListReader{}
	model := make([]zzCell, n)
	for i := 0; i < n; i++ {
		if zzBool("parent.present") {
			v := zzU8("parent.val")
			r.items = append(r.items, zzKV{append(append([]byte{}, zzTxnPrefix...), zzUniverse[i]...), []byte{v}})
			model[i] = zzCell{true, v}
		}
	}
	return r, model
}

// zzCheckReads: Get + forward + reverse iteration of prefix "p" through t agree with the model.
func zzCheckReads(tag string, t *Txn, model []zzCell, n int) {
	for i := 0; i < n; i++ {
		v, err := t.Get(zzUniverse[i])
		zzAssert(tag+".get-no-error", err == nil)
		if model[i].present {
			zzAssert(tag+".get-sees-latest-write", len(v) == 1 && v[0] == model[i].val)
		} else {
			zzAssert(tag+".get-hides-deleted-and-absent", v == nil)
		}
	}
	for _, reverse := range []bool{false, true} {
		var it lib.IteratorI
		var err lib.ErrorI
		if reverse {
			it, err = t.RevIterator([]byte("p"))
		} else {
			it, err = t.Iterator([]byte("p"))
		}
		zzAssert(tag+".iterator-opens", err == nil)
		if err != nil {
			return
		}
		// a point read between opening an iterator and first using it must not disturb the iterator
		_, _ = t.Get([]byte("zzzz/some-longer-key-outside-the-prefix"))
		_, _ = t.Get(zzUniverse[n-1])
		var want []int
		for i := 0; i < n; i++ {
			j := i
			if reverse {
				j = n - 1 - i
			}
			if model[j].present && zzUniverse[j][0] == 'p' {
				want = append(want, j)
			}
		}
		k := 0
		for ; it.Valid() && k < n+2; it.Next() {
			if k < len(want) {
				zzAssert(tag+".iteration-key-order", bytes.Equal(it.Key(), zzUniverse[want[k]]))
				val := it.Value()
				zzAssert(tag+".iteration-value", len(val) == 1 && val[0] == model[want[k]].val)
			}
			k++
		}
		it.Close()
		zzAssert(tag+".iteration-yields-exactly-the-visible-keys", k == len(want))
	}
}

//zz:harness unwind=200 maxpaths=200000 timebudget=1500 panic=violation:V3.no-panic param.keys@quick=3 param.keys@thorough=4
//zz:reach V3.done
func ZZ_C10_V3_txn_overlay_reads() {
	n := zzParam("keys", 3)
	if n == 3 {
		zzUniverse = [][]byte{[]byte("p"), []byte("pb"), []byte("qa")}
	}
	parent, model := zzParentWorld(n)
	t := NewTxn(parent, nil, zzTxnPrefix, false, true, true)
	zzPending("txn", t, model, n)
	zzCheckReads("V3", t, model, n)
	zzReach("V3.done")
}

//zz:harness unwind=200 maxpaths=400000 timebudget=3000 panic=violation:V4.no-panic param.keys@quick=2 param.keys@thorough=3
//zz:reach V4.done
func ZZ_C10_V4_nested_txn() {
	n := zzParam("keys", 2)
	zzUniverse = [][]byte{[]byte("p"), []byte("pb"), []byte("qa")}
	parent, model := zzParentWorld(n)
	outer := NewTxn(parent, nil, zzTxnPrefix, false, true, true)
	zzPending("outer", outer, model, n)
	outerModel := append([]zzCell{}, model...)
	inner := NewTxn(outer, outer, nil, false, true, true)
	zzPending("inner", inner, model, n)
	zzCheckReads("V4.inner", inner, model, n)
	if zzBool("commitInner") {
		zzAssert("V4.commit-returns-nil", inner.Commit() == nil)
		zzCheckReads("V4.outer-after-commit", outer, model, n)
	} else {
		inner.Discard()
		zzCheckReads("V4.outer-after-discard", outer, outerModel, n)
		zzCheckReads("V4.inner-after-discard", inner, outerModel, n)
	}
	zzReach("V4.done")
}


// V5: transaction copies (Txn.Copy, used for the mempool's copy of the state): the copy starts with
// the pending writes of the original and from then on the two are independent - a write, a commit or
// a discard on one side never changes what the other side reads or iterates.
//
//zz:harness unwind=200 maxpaths=400000 timebudget=3000 panic=violation:V5.no-panic param.keys@quick=2 param.keys@thorough=3
//zz:reach V5.done
func ZZ_C10_V5_txn_copies_are_independent() {
	n := zzParam("keys", 2)
	zzUniverse = [][]byte{[]byte("p"), []byte("pb"), []byte("qa")}
	parent, model := zzParentWorld(n)
	orig := NewTxn(parent, nil, zzTxnPrefix, false, true, true)
	zzPending("orig", orig, model, n)
	cp := orig.Copy(parent, nil)
	copyModel := append([]zzCell{}, model...)
	zzCheckReads("V5.copy-starts-equal", cp, copyModel, n)
	// diverge: more writes on either side
	zzPending("copy.more", cp, copyModel, n)
	zzPending("orig.more", orig, model, n)
	zzCheckReads("V5.original-unaffected-by-copy-writes", orig, model, n)
	zzCheckReads("V5.copy-unaffected-by-original-writes", cp, copyModel, n)
	// one side is discarded: the other keeps its pending writes
	if zzBool("discardCopy") {
		cp.Discard()
		zzCheckReads("V5.original-survives-copy-discard", orig, model, n)
	} else {
		orig.Discard()
		zzCheckReads("V5.copy-survives-original-discard", cp, copyModel, n)
	}
	zzReach("V5.done")
}
