package store

import (
	"bytes"

	"github.com/canopy-network/canopy/lib"
)

// C16: Merkle proofs of the sparse Merkle tree (store/smt.go).
//   M1  VerifyProof never panics on malformed proofs (arbitrary node keys of 0..3 bytes, arbitrary
//       bitmasks, arbitrary values): proofs arrive from peers / RPC callers.
// The in-memory store VerifyProof opens is replaced by the harness map store (zzStore); hashing is
// the uninterpreted injective function, node marshalling is boxing.

func zzKeyBytes(name string, max int) []byte {
	b := zzBytesUpTo(name, max)
	n := zzConcrete(len(b), 0, max)
	return b[:n]
}

func zzMalformedProof() {
	s := &SMT{keyBitLength: zzParam("keybits", 8)}
	n := zzConcrete(zzInt("proofLen"), zzParam("minnodes", 0), zzParam("proofnodes", 2))
	var proof []*lib.Node
	for i := 0; i < n; i++ {
		proof = append(proof, &lib.Node{
			Key:     zzKeyBytes("key", zzParam("keybytes", 3)),
			Value:   zzBytes("val", 2),
			Bitmask: zzI32("bitmask"),
		})
	}
	k, v, root := zzBytes("k", 2), zzBytes("v", 2), zzBytes("root", 32)
	membership := zzBool("membership")
	_, _ = s.VerifyProof(k, v, membership, root, proof)
	zzReach("M1.returned")
}

//zz:harness unwind=80 panic=violation:M1.VerifyProof-never-panics maxpaths=200000 timebudget=1800 param.keybits=24
//zz:reach M1.returned
func ZZ_C16_M1_malformed_proof_no_panic() { zzMalformedProof() }

// M1b: the same for proofs of exactly three nodes (two tree levels, so the checks of the non-root
// level are exercised) with node keys of up to 8 bits.
//
//zz:harness unwind=80 panic=violation:M1.VerifyProof-never-panics maxpaths=900000 timebudget=7200 param.keybits=24 param.proofnodes=3 param.keybytes=2 param.minnodes=3
//zz:reach M1.returned
func ZZ_C16_M1b_malformed_three_node_proof_no_panic() { zzMalformedProof() }

// M3 completeness at tree level: for every present key the honest proof verifies as membership
// of (key, value) and for an absent key as non-membership, against the tree's own root; and the
// same honest proofs do NOT verify the opposite statements (wrong value, wrong kind).
//
//zz:harness unwind=80 maxpaths=200000 timebudget=1500 panic=violation:M3.no-panic param.leaves@quick=1 param.leaves@thorough=2
//zz:reach M3.done
func ZZ_C16_M3_honest_proofs_verify() {
	n := zzParam("leaves", 2)
	s := zzTree(n)
	root := s.Root()
	for i := 0; i <= n; i++ {
		k := zzUserKey(i)
		proof, err := s.GetMerkleProof(k)
		zzAssert("M3.proof-generated", err == nil)
		if err != nil {
			zzStop()
		}
		present := i < n
		okM, errM := s.VerifyProof(k, zzUserVal(i), true, root, proof)
		okN, errN := s.VerifyProof(k, zzUserVal(i), false, root, proof)
		zzAssert("M3.no-error", errM == nil && errN == nil)
		if present {
			zzAssert("M3.present-key-verifies-as-member", okM)
			zzAssert("M3.present-key-not-proved-absent", !okN)
			okW, _ := s.VerifyProof(k, []byte{'w'}, true, root, proof)
			zzAssert("M3.wrong-value-rejected", !okW)
		} else {
			zzAssert("M3.absent-key-verifies-as-non-member", okN)
			zzAssert("M3.absent-key-not-proved-member", !okM)
			// ... nor with the value of any key that IS stored (the absent key's insertion point may be
			// that key's leaf, whose value the proof carries)
			for j := 0; j < n; j++ {
				okJ, _ := s.VerifyProof(k, zzUserVal(j), true, root, proof)
				zzAssert("M3.absent-key-not-proved-member-with-a-stored-value", !okJ)
			}
		}
	}
	zzReach("M3.done")
}

// M2a soundness against a foreign honest proof: the honest proof generated for key A, presented
// for another key B, never proves the absence of a present B nor the membership of an absent B
// (nor of a present B with another value).
//
//zz:harness unwind=80 maxpaths=200000 timebudget=1500 panic=violation:M2.no-panic param.leaves@quick=1 param.leaves@thorough=2
//zz:reach M2a.done
func ZZ_C16_M2a_foreign_honest_proof() {
	n := zzParam("leaves", 2)
	s := zzTree(n)
	root := s.Root()
	a := zzConcrete(zzInt("a"), 0, n)
	b := zzConcrete(zzInt("b"), 0, n)
	zzAssume(a != b)
	proof, err := s.GetMerkleProof(zzUserKey(a))
	if err != nil {
		zzStop()
	}
	okN, _ := s.VerifyProof(zzUserKey(b), zzUserVal(b), false, root, proof)
	okM, _ := s.VerifyProof(zzUserKey(b), zzUserVal(b), true, root, proof)
	okW, _ := s.VerifyProof(zzUserKey(b), []byte{'w'}, true, root, proof)
	if b < n {
		zzAssert("M2.present-key-never-proved-absent", !okN)
		zzAssert("M2.wrong-value-never-proved", !okW)
	} else {
		zzAssert("M2.absent-key-never-proved-member", !okM && !okW)
	}
	zzReach("M2a.done")
}

// M2b / M2c soundness against a fully adversarial proof: the tree and its root are real, the proof
// is up to `proofnodes` nodes with arbitrary keys, values and bitmasks. Whatever the prover sends,
// a present key is never proved absent, a present key is never proved to hold another value, and
// an absent key is never proved present. Under the injective hash a forged chain can only reach
// the real root by replaying real hash inputs - but a parent's value is
// Hash(leftKey|leftValue|rightKey|rightValue) WITHOUT delimiters, so the split of one real input
// into keys and values is not unique. The space of proofs is therefore cut in two:
//   M2b  every value in the proof has the size the tree gives it (32-byte hash; 20 bytes exactly
//        for the reserved minimum / maximum leaves). With node keys of <= 8 bits (2 bytes each) the
//        split is then unique and the obligations must hold.
//   M2c  some value has another size (20 bytes under an ordinary key, 32 under a reserved key):
//        VerifyProof does not check value sizes, the boundary can be moved and a present key IS
//        proved absent - known finding (known_findings.json, replay/c16_forged_proof_test.go).
func zzAdversarialProof(sized bool) {
	n := zzParam("leaves", 1)
	s := zzTree(n)
	root := s.Root()
	b := zzConcrete(zzInt("b"), 0, n)
	np := zzConcrete(zzInt("proofLen"), 2, zzParam("proofnodes", 2))
	var proof []*lib.Node
	allSized := true
	for i := 0; i < np; i++ {
		vlen := 20 + 12*zzConcrete(zzInt("v32"), 0, 1)
		k := zzBytes("key", 2)
		reserved := zzOr(bytes.Equal(k, s.minKey.bytes()), bytes.Equal(k, s.maxKey.bytes()))
		allSized = zzAnd(allSized, reserved == (vlen == 20))
		proof = append(proof, &lib.Node{Key: k, Value: zzBytes("val", vlen), Bitmask: int32(zzConcrete(zzInt("bitmask"), 0, 1))})
	}
	zzAssume(allSized == sized)
	membership := zzBool("membership")
	other := zzBool("otherValue")
	if zzParam("fixquery", 0) == 1 {
		// quick tier of M2c: the query of the recorded finding only (non-membership of the present key)
		zzAssume(b == 0 && !membership && !other)
	}
	v := zzUserVal(b)
	if other {
		v = []byte{'w'}
	}
	ok, _ := s.VerifyProof(zzUserKey(b), v, membership, root, proof)
	tag := "M2b."
	if !sized {
		tag = "M2c.unsized-values."
	}
	if ok {
		zzReach(tag + "accepted")
		if b < n {
			zzAssert(tag+"present-key-never-proved-absent", membership)
			zzAssert(tag+"wrong-value-never-proved", v[0] == 'v')
		} else {
			zzAssert(tag+"absent-key-never-proved-member", !membership)
		}
	}
	zzReach(tag + "done")
}

//zz:harness tier=thorough unwind=80 maxpaths=900000 timebudget=14400 panic=ignore param.proofnodes@thorough=3
//zz:reach M2b.done M2b.accepted
func ZZ_C16_M2b_adversarial_proof_sized_values() { zzAdversarialProof(true) }

//zz:harness unwind=80 maxpaths=900000 timebudget=14400 panic=ignore param.fixquery@quick=1
//zz:reach M2c.unsized-values.done M2c.unsized-values.accepted
func ZZ_C16_M2c_adversarial_proof_unsized_values() { zzAdversarialProof(false) }
