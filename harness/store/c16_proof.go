package store

import (
	"github.com/canopy-network/canopy/lib"
)

// C16: Merkle proofs of the sparse Merkle tree (store/smt.go).
//   M1  VerifyProof never panics on malformed proofs (arbitrary node keys of 0..3 bytes, arbitrary
//       bitmasks, arbitrary values): proofs arrive from peers / RPC callers.
// The in-memory store VerifyProof opens is replaced by the harness map store (zzStore); hashing is
// the uninterpreted injective function, node marshalling is boxing.

//zz:stub github.com/canopy-network/canopy/store.NewStoreInMemory harness zzNewMemStore
//zz:stub github.com/canopy-network/canopy/lib.NewDefaultLogger noop

func zzNewMemStore(log lib.LoggerI, configs ...lib.Config) (lib.StoreI, lib.ErrorI) {
	return &zzStore{}, nil
}

func zzKeyBytes(name string, max int) []byte {
	b := zzBytesUpTo(name, max)
	n := zzConcrete(len(b), 0, max)
	return b[:n]
}

//zz:harness unwind=80 panic=violation:M1.VerifyProof-never-panics maxpaths=60000 timebudget=900
//zz:reach M1.returned
func ZZ_C16_M1_malformed_proof_no_panic() {
	s := &SMT{keyBitLength: zzParam("keybits", 8)}
	n := zzConcrete(zzInt("proofLen"), 0, zzParam("proofnodes", 2))
	var proof []*lib.Node
	for i := 0; i < n; i++ {
		proof = append(proof, &lib.Node{
			Key:     zzKeyBytes("key", zzParam("keybytes", 3)),
			Value:   zzBytes("val", 2),
			Bitmask: zzI32("bitmask"),
		})
	}
	k, v, root := zzBytes("k", 2), zzBytes("v", 2), zzBytes("root", 32)
	membership := zzBool("membership")
	_, _ = s.VerifyProof(k, v, membership, root, proof)
	zzReach("M1.returned")
}
