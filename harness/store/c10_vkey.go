package store

import (
	"bytes"

	"github.com/canopy-network/canopy/lib"
)

// C10 / V1: the versioned key layout of store/versioned_store.go:
//   raw key = userKey || ^version (8 bytes, big endian), value = tombstone byte || value.
// Obligations: encode/decode round-trip; for one user key newer versions sort first; for two user
// keys of the same segment shape the raw keys sort like the user keys whatever the versions (this
// is what lets one forward scan visit "all versions of k1, then all versions of k2").
// User keys are real lib.JoinLenPrefix keys of 1..2 segments of 0..2 symbolic bytes; versions are
// full 64-bit symbolic.

func zzSegS(name string, max int) []byte {
	b := zzBytesUpTo(name, max)
	n := zzConcrete(len(b), 0, max)
	return b[:n]
}

//zz:harness unwind=40 panic=violation:V1.nopanic
//zz:reach V1.rt.done
func ZZ_C10_V1_roundtrip() {
	vs := &VersionedStore{}
	k := lib.JoinLenPrefix(zzSegS("a", 2), zzSegS("b", 2))
	v := zzU64("version")
	raw := vs.makeVersionedKey(k, v)
	uk, ver, err := parseVersionedKey(raw, true)
	zzAssert("V1.rt.no-error", err == nil)
	zzAssert("V1.rt.userkey", bytes.Equal(uk, k))
	zzAssert("V1.rt.version", ver == v)
	zzAssert("V1.rt.parseVersion", parseVersion(raw) == v)
	// value framing
	val := zzSegS("val", 3)
	tomb := zzU8("tomb")
	t2, v2 := parseValueWithTombstone(vs.valueWithTombstone(tomb, val))
	zzAssert("V1.rt.tombstone", t2 == tomb)
	zzAssert("V1.rt.value", bytes.Equal(v2, val))
	zzReach("V1.rt.done")
}

//zz:harness unwind=40 panic=violation:V1.nopanic
//zz:reach V1.ord.done
func ZZ_C10_V1_newer_version_sorts_first() {
	vs := &VersionedStore{}
	k := lib.JoinLenPrefix(zzSegS("a", 2))
	v1, v2 := zzU64("v1"), zzU64("v2")
	c := bytes.Compare(vs.makeVersionedKey(k, v1), vs.makeVersionedKey(k, v2))
	zzAssert("V1.order.versions", (c < 0) == (v1 > v2) && (c == 0) == (v1 == v2))
	zzReach("V1.ord.done")
}

// Two user keys with the same segment shape (same number of segments, same segment lengths).
//
//zz:harness unwind=40 panic=violation:V1.nopanic
//zz:reach V1.shape.done
func ZZ_C10_V1_same_shape_keys_sort_like_user_keys() {
	vs := &VersionedStore{}
	a1, b1 := zzSegS("a1", 2), zzSegS("b1", 2)
	a2, b2 := zzSegS("a2", 2), zzSegS("b2", 2)
	zzAssume(len(a1) == len(a2) && len(b1) == len(b2))
	k1, k2 := lib.JoinLenPrefix(a1, b1), lib.JoinLenPrefix(a2, b2)
	v1, v2 := zzU64("v1"), zzU64("v2")
	cu := bytes.Compare(k1, k2)
	cr := bytes.Compare(vs.makeVersionedKey(k1, v1), vs.makeVersionedKey(k2, v2))
	if cu != 0 {
		zzAssert("V1.order.same-shape", (cu < 0) == (cr < 0))
	}
	zzReach("V1.shape.done")
}

// V1d: prefix ranges. Every iterator over prefix p is bounded by [p, prefixEnd(p)). For every stored
// key that continues p with one more length-prefixed segment - of any length up to the documented
// maximum total key length of 255 bytes, and any content, including all 0xFF - and any version suffix, the raw
// versioned key lies inside that range (otherwise prefix scans silently skip committed keys while
// point reads still find them).
//
//zz:harness unwind=300 maxalloc=300
//zz:reach V1d.done
func ZZ_C10_V1d_prefix_range_contains_every_key_under_the_prefix() {
	vs := &VersionedStore{}
	p := lib.JoinLenPrefix([]byte{'p'})
	// documented contract of the store: a user key is at most 255 bytes long in total
	segLen := []int{0, 1, 2, 8, 9, 251, 252}[zzConcrete(zzInt("segLen"), 0, 6)]
	seg := zzBytes("seg", segLen)
	key := lib.JoinLenPrefix([]byte{'p'}, seg)
	raw := vs.makeVersionedKey(key, zzU64("version"))
	end := prefixEnd(p)
	zzAssert("V1d.key-not-below-the-range", bytes.Compare(raw, p) >= 0)
	zzAssert("V1d.key-below-the-exclusive-upper-bound", bytes.Compare(raw, end) < 0)
	// a key under the next sibling prefix is outside
	sib := vs.makeVersionedKey(lib.JoinLenPrefix([]byte{'q'}, seg), zzU64("version2"))
	zzAssert("V1d.sibling-prefix-is-outside", bytes.Compare(sib, end) >= 0)
	zzReach("V1d.done")
}
