package store

// C08 / K1: the node-key codec of the sparse Merkle tree (store/smt.go) — newNodeKey, bitAt,
// addBit, totalBits, greatestCommonPrefix, cmp — treated as functions over bit strings.
// Bounds: data <= 3 bytes, every bit count 1..24; all data bytes symbolic.

func zzBitOf(data []byte, i int) int { return int(data[i/8]>>(7-uint(i%8))) & 1 }

// K1a: decode(encode(bits)) = bits. A fresh key decoded from the encoded bytes reports the same
// bit count and the same bit at every position. Because totalBits/bitAt read only the bytes, this
// also gives injectivity of the encoding (two different bit strings never share key bytes).
//
//zz:harness unwind=40
//zz:reach K1a.done
func ZZ_C08_K1a_roundtrip() {
	maxBytes := zzParam("bytes", 3)
	data := zzBytes("data", maxBytes)
	bc := zzConcrete(zzInt("bitCount"), 1, 8*maxBytes)
	k := newNodeKey(data, bc)
	fresh := new(key).fromBytes(k.bytes())
	zzAssert("K1a.totalBits", fresh.totalBits() == bc)
	zzAssert("K1a.len", len(k.bytes()) == (bc+7)/8+1)
	for i := 0; i < bc; i++ {
		zzAssert("K1a.bitAt", fresh.bitAt(i) == zzBitOf(data, i))
	}
	// bits beyond bitCount in the source must not leak into the key: same prefix => same bytes
	data2 := zzBytes("data2", maxBytes)
	same := true
	for i := 0; i < bc; i++ {
		same = same && zzBitOf(data, i) == zzBitOf(data2, i)
	}
	k2 := newNodeKey(data2, bc)
	if same {
		zzAssert("K1a.canonical", k.equals(k2))
	} else {
		zzAssert("K1a.injective", !k.equals(k2))
	}
	zzReach("K1a.done")
}

// K1b: keys of different bit length never share bytes (prefix keys are distinct tree nodes).
//
//zz:harness unwind=40
//zz:reach K1b.done
func ZZ_C08_K1b_lengths_distinct() {
	maxBytes := zzParam("bytes", 3)
	d1, d2 := zzBytes("d1", maxBytes), zzBytes("d2", maxBytes)
	b1 := zzConcrete(zzInt("bc1"), 1, 8*maxBytes)
	b2 := zzConcrete(zzInt("bc2"), 1, 8*maxBytes)
	zzAssume(b1 < b2)
	zzAssert("K1b.distinct", !newNodeKey(d1, b1).equals(newNodeKey(d2, b2)))
	zzReach("K1b.done")
}

// K1c: a key grown one bit at a time from the empty key{} (how traverse() builds prefixes) is
// byte-identical to newNodeKey of the same bit string — node identity is history independent.
//
//zz:harness unwind=40
//zz:reach K1c.done
func ZZ_C08_K1c_addBit_canonical() {
	maxBytes := zzParam("bytes", 3)
	data := zzBytes("data", maxBytes)
	bc := zzConcrete(zzInt("bitCount"), 1, 8*maxBytes)
	acc := &key{}
	// acc is the zero key{} exactly as resetGCP() creates it; addBit initialises it lazily
	for i := 0; i < bc; i++ {
		acc.addBit(zzBitOf(data, i))
	}
	want := newNodeKey(data, bc)
	zzAssert("K1c.bytes", acc.equals(want))
	zzAssert("K1c.bitCount", acc.bitCount == bc)
	zzReach("K1c.done")
}

// K1d: greatestCommonPrefix(target, current) from position 0 yields the longest common prefix
// (contract: current no longer than target) and bitPos = its length.
//
//zz:harness unwind=40
//zz:reach K1d.done
func ZZ_C08_K1d_gcp() {
	maxBytes := zzParam("bytes", 2)
	dt, dc := zzBytes("target", maxBytes), zzBytes("current", maxBytes)
	bt := 8 * maxBytes
	bcur := zzConcrete(zzInt("bcCurrent"), 1, bt)
	target, current := newNodeKey(dt, bt), newNodeKey(dc, bcur)
	gcp := &key{}
	pos := 0
	target.greatestCommonPrefix(&pos, gcp, current)
	// reference: first differing position
	ref := bcur
	for i := bcur - 1; i >= 0; i-- {
		if zzBitOf(dt, i) != zzBitOf(dc, i) {
			ref = i
		}
	}
	zzAssert("K1d.pos", pos == ref)
	if ref > 0 {
		zzAssert("K1d.prefix", gcp.equals(newNodeKey(dt, ref)))
	}
	zzReach("K1d.done")
}

// K1e: cmp is the lexicographic order of the first len(k2) bits (contract len k2 <= len k) and on
// full-length keys a strict total order: antisymmetric, transitive, zero iff equal.
//
//zz:harness unwind=40
//zz:reach K1e.done
func ZZ_C08_K1e_cmp() {
	maxBytes := zzParam("bytes", 2)
	n := 8 * maxBytes
	da, db, dc := zzBytes("a", maxBytes), zzBytes("b", maxBytes), zzBytes("c", maxBytes)
	a, b, c := newNodeKey(da, n), newNodeKey(db, n), newNodeKey(dc, n)
	ab, ba, bc, ac := a.cmp(b), b.cmp(a), b.cmp(c), a.cmp(c)
	zzAssert("K1e.range", ab >= -1 && ab <= 1)
	zzAssert("K1e.antisym", ab == -ba)
	zzAssert("K1e.zero-iff-equal", (ab == 0) == a.equals(b))
	if ab < 0 && bc < 0 {
		zzAssert("K1e.transitive", ac < 0)
	}
	// reference: unsigned big-endian comparison of the data
	lt := false
	for i := n - 1; i >= 0; i-- {
		x, y := zzBitOf(da, i), zzBitOf(db, i)
		if x != y {
			lt = x < y
		}
	}
	zzAssert("K1e.lexicographic", (ab < 0) == lt)
	// prefix comparison: k.cmp(prefixKey)==0 iff prefix
	pl := zzConcrete(zzInt("prefixLen"), 1, n)
	p := newNodeKey(db, pl)
	isPrefix := true
	for i := 0; i < pl; i++ {
		isPrefix = isPrefix && zzBitOf(da, i) == zzBitOf(db, i)
	}
	zzAssert("K1e.prefix", (a.cmp(p) == 0) == isPrefix)
	zzReach("K1e.done")
}

// K1f: the same order statements on LONG keys (6 data bytes = 48 bits, prefix lengths beyond four
// full bytes), where cmp compares whole bytes first and only the tail bit by bit - production keys
// are 160 bits, so this is the regime the tree actually runs in.
//
//zz:harness unwind=80
//zz:reach K1f.done
func ZZ_C08_K1f_cmp_long_keys() {
	maxBytes := zzParam("longbytes", 6)
	n := 8 * maxBytes
	da, db := zzBytes("a", maxBytes), zzBytes("b", maxBytes)
	a, b := newNodeKey(da, n), newNodeKey(db, n)
	ab, ba := a.cmp(b), b.cmp(a)
	zzAssert("K1f.antisym", ab == -ba)
	zzAssert("K1f.zero-iff-equal", (ab == 0) == a.equals(b))
	lt := false
	for i := n - 1; i >= 0; i-- {
		x, y := zzBitOf(da, i), zzBitOf(db, i)
		if x != y {
			lt = x < y
		}
	}
	zzAssert("K1f.lexicographic", (ab < 0) == lt)
	pl := zzConcrete(zzInt("prefixLen"), 33, n)
	p := newNodeKey(db, pl)
	isPrefix := true
	for i := 0; i < pl; i++ {
		isPrefix = isPrefix && zzBitOf(da, i) == zzBitOf(db, i)
	}
	zzAssert("K1f.prefix", (a.cmp(p) == 0) == isPrefix)
	zzReach("K1f.done")
}
