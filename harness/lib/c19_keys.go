package lib

// C19 / D1: composite store keys. Every store key in the node is JoinLenPrefix(segments...):
// one length byte + the segment, repeated. Obligations (segments <= 255 bytes, the documented
// contract of the one-byte length):
//   D1.roundtrip   DecodeLengthPrefixed(JoinLenPrefix(a,b,c)) == (a,b,c)
//   D1.injective   different tuples never produce the same key
//   D1.prefix      join(x) is a byte-prefix of join(y) only if x is a segment-wise prefix of y
//                  (so a prefix range scan for (a,b) never captures keys of (a,b') with b' != b)
// Bounds: up to 3 segments, each 0..3 bytes with symbolic length and contents.

func zzSeg(name string, max int) []byte {
	b := zzBytesUpTo(name, max)
	n := zzConcrete(len(b), 0, max)
	return b[:n]
}

func zzBytesEq(a, b []byte) bool {
	if len(a) != len(b) {
		return false
	}
	eq := true
	for i := range a {
		if a[i] != b[i] {
			eq = false
		}
	}
	return eq
}

//zz:harness unwind=40 panic=violation:D1.nopanic maxalloc=16
//zz:reach D1.rt.done
func ZZ_C19_D1_roundtrip() {
	m := zzParam("seglen", 3)
	a, b, c := zzSeg("a", m), zzSeg("b", m), zzSeg("c", m)
	key := JoinLenPrefix(a, b, c)
	zzAssert("D1.len", len(key) == 3+len(a)+len(b)+len(c))
	segs := DecodeLengthPrefixed(key)
	zzAssert("D1.roundtrip.count", len(segs) == 3)
	if len(segs) == 3 {
		zzAssert("D1.roundtrip.a", zzBytesEq(segs[0], a))
		zzAssert("D1.roundtrip.b", zzBytesEq(segs[1], b))
		zzAssert("D1.roundtrip.c", zzBytesEq(segs[2], c))
	}
	zzReach("D1.rt.done")
}

// Two tuples of possibly different arity (2 vs 3 segments, or 2 vs 2).
//
//zz:harness unwind=40 panic=violation:D1.nopanic maxalloc=16
//zz:reach D1.inj.equal D1.inj.differ
func ZZ_C19_D1_injective() {
	m := zzParam("seglen", 2)
	a1, b1 := zzSeg("a1", m), zzSeg("b1", m)
	a2, b2, c2 := zzSeg("a2", m), zzSeg("b2", m), zzSeg("c2", m)
	k1 := JoinLenPrefix(a1, b1)
	k2 := JoinLenPrefix(a2, b2)
	k3 := JoinLenPrefix(a2, b2, c2)
	if zzBytesEq(k1, k2) {
		zzReach("D1.inj.equal")
		zzAssert("D1.injective.same-arity", zzBytesEq(a1, a2) && zzBytesEq(b1, b2))
	} else {
		zzReach("D1.inj.differ")
	}
	zzAssert("D1.injective.diff-arity", !zzBytesEq(k1, k3))
}

// Prefix ranges: every iterator in the node scans "all keys that start with join(prefix segments)".
//
//zz:harness unwind=40 panic=violation:D1.nopanic maxalloc=16
//zz:reach D1.prefix.hit D1.prefix.miss
func ZZ_C19_D1_prefix_range() {
	m := zzParam("seglen", 2)
	a1, b1 := zzSeg("a1", m), zzSeg("b1", m)
	a2, b2, c2 := zzSeg("a2", m), zzSeg("b2", m), zzSeg("c2", m)
	p := JoinLenPrefix(a1, b1)
	k := JoinLenPrefix(a2, b2, c2)
	isPrefix := len(p) <= len(k) && zzBytesEq(k[:min(len(p), len(k))], p)
	if isPrefix {
		zzReach("D1.prefix.hit")
		zzAssert("D1.prefix.sound", zzBytesEq(a1, a2) && zzBytesEq(b1, b2))
	} else {
		zzReach("D1.prefix.miss")
		zzAssert("D1.prefix.complete", !(zzBytesEq(a1, a2) && zzBytesEq(b1, b2)))
	}
}

// Length bytes at the top of the range: segments of 254/255 bytes (contents concrete zero, only
// the lengths matter) still round-trip, 256 silently truncates (outside the documented contract,
// recorded as an observation, not an obligation).
//
//zz:harness unwind=600 panic=violation:D1.nopanic maxalloc=16
//zz:reach D1.big.done
func ZZ_C19_D1_length_byte_limit() {
	la := zzConcrete(zzInt("la"), 254, 255)
	a := make([]byte, la)
	b := zzSeg("b", 2)
	segs := DecodeLengthPrefixed(JoinLenPrefix(a, b))
	zzAssert("D1.big.count", len(segs) == 2)
	if len(segs) == 2 {
		zzAssert("D1.big.len", len(segs[0]) == la && zzBytesEq(segs[1], b))
	}
	zzReach("D1.big.done")
}
