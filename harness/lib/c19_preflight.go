package lib

// C19 / D3 (lib side): preflightProtoBytes is the hand-written scan that every lib.Unmarshal of
// peer-supplied bytes (transactions, blocks, certificates, consensus and peer messages) runs
// before the protobuf decoder. For an arbitrary buffer it must return (no panic), terminate within
// the unwinding bound (the offset strictly increases), and whatever it accepts contains no
// length-delimited field that claims more bytes than the buffer holds or more than the 32 MB cap.
// The real protowire.ConsumeTag / ConsumeVarint are executed.
//   generic : every buffer of 0..G bytes (G = 5 quick, 7 thorough)
//   deep    : every buffer of 1..12 bytes starting with a one-byte tag of a length-delimited field,
//             followed by a length varint of up to 10 bytes
//             (2^63 and above are inside the bound) and at most two more bytes

//zz:harness unwind=40 panic=violation:D3.preflight.nopanic maxalloc=16 param.generic@thorough=7
//zz:reach D3.preflight.accepted D3.preflight.rejected
func ZZ_C19_D3_preflight_generic() {
	n := zzConcrete(zzInt("n"), 0, zzParam("generic", 5))
	buf := zzBytes("buf", n)
	if preflightProtoBytes(buf) == nil {
		zzReach("D3.preflight.accepted")
	} else {
		zzReach("D3.preflight.rejected")
	}
}

//zz:harness unwind=40 panic=violation:D3.preflight.nopanic maxalloc=16
//zz:reach D3.preflight.accepted D3.preflight.rejected
func ZZ_C19_D3_preflight_deep() {
	n := zzConcrete(zzInt("n"), 1, zzParam("deep", 12))
	buf := zzBytes("buf", n)
	zzAssume(buf[0]&7 == 2 && buf[0] >= 8 && buf[0] < 0x80)
	// at most two bytes follow the length varint (longer tails are the generic cut's subject)
	l, k := zzVarint(buf[1:])
	zzAssume(k == 0 || n-1-k <= 2)
	if preflightProtoBytes(buf) == nil {
		zzReach("D3.preflight.accepted")
		// the first field was accepted: its declared length fits what follows the length varint
		zzAssert("D3.preflight.accepted-length-is-wellformed", k > 0)
		if k > 0 {
			zzAssert("D3.preflight.accepted-length-fits-buffer", l <= uint64(n-1-k))
			zzAssert("D3.preflight.accepted-length-under-cap", l <= 32*1024*1024)
		}
	} else {
		zzReach("D3.preflight.rejected")
	}
}

// zzVarint: reference base-128 varint decoder (value, bytes used; 0 = malformed / overflow).
func zzVarint(b []byte) (uint64, int) {
	var v uint64
	for i := 0; i < len(b) && i < 10; i++ {
		c := b[i]
		if i == 9 && c > 1 {
			return 0, 0
		}
		v |= uint64(c&0x7f) << (7 * uint(i))
		if c < 0x80 {
			return v, i + 1
		}
	}
	return 0, 0
}
