package lib

import (
	"bytes"

	"google.golang.org/protobuf/types/known/anypb"
)

// C19 / D2 (and C05 / A1 "a signature over exactly its content"): the digests that get signed cover
// every meaning-bearing field. With deterministic injective marshalling (boxing, DESIGN §3) equal
// sign bytes must imply equal fields; a field dropped from the digest is a counterexample: two
// messages that differ only there share a signature.

// zzText: a protobuf `string` field. proto3 strings must be valid UTF-8 - the real Marshal fails on
// anything else (found by the translator validation, tools/selftest.py: the boxing model assumes
// Marshal succeeds) - so string fields are quantified over ASCII text.
func zzText(name string, n int) string {
	b := zzBytes(name, n)
	for _, c := range b {
		zzAssume(c < 0x80)
	}
	return string(b)
}

func zzTx(name string) *Transaction {
	return &Transaction{
		MessageType:   zzText(name+".type", 2),
		Msg:           &anypb.Any{TypeUrl: "t", Value: zzBytes(name+".msg", 3)},
		Signature:     &Signature{PublicKey: zzBytes(name+".pk", 2), Signature: zzBytes(name+".sig", 2)},
		CreatedHeight: zzU64(name + ".created"), Time: zzU64(name + ".time"), Fee: zzU64(name + ".fee"),
		Memo:          zzText(name+".memo", 2),
		NetworkId:     zzU64(name + ".net"), ChainId: zzU64(name + ".chain"), Nonce: zzU64(name + ".nonce"),
	}
}

//zz:harness unwind=60
//zz:reach D2.tx.same D2.tx.differ
func ZZ_C19_D2_transaction_signbytes_cover_all_fields() {
	a, b := zzTx("a"), zzTx("b")
	sa, ea := a.GetSignBytes()
	sb, eb := b.GetSignBytes()
	zzAssert("D2.tx.no-error", ea == nil && eb == nil)
	if bytes.Equal(sa, sb) {
		zzReach("D2.tx.same")
		zzAssert("D2.tx.message-type", a.MessageType == b.MessageType)
		zzAssert("D2.tx.payload", bytes.Equal(a.Msg.Value, b.Msg.Value))
		zzAssert("D2.tx.created-height", a.CreatedHeight == b.CreatedHeight)
		zzAssert("D2.tx.time", a.Time == b.Time)
		zzAssert("D2.tx.fee", a.Fee == b.Fee)
		zzAssert("D2.tx.memo", a.Memo == b.Memo)
		zzAssert("D2.tx.network-id", a.NetworkId == b.NetworkId)
		zzAssert("D2.tx.chain-id", a.ChainId == b.ChainId)
		zzAssert("D2.tx.nonce", a.Nonce == b.Nonce)
	} else {
		zzReach("D2.tx.differ")
	}
	// the signature itself is not part of what is signed, and signing must not disturb the tx
	zzAssert("D2.tx.signature-untouched", a.Signature != nil && len(a.Signature.Signature) == 2)
}

func zzQCFull(name string) *QuorumCertificate {
	return &QuorumCertificate{
		Header: &View{NetworkId: zzU64(name + ".net"), ChainId: zzU64(name + ".chain"), Height: zzU64(name + ".height"),
			RootHeight: zzU64(name + ".root"), Round: zzU64(name + ".round"), Phase: Phase(zzI32(name + ".phase"))},
		Block: zzBytes(name+".block", 2), BlockHash: zzBytes(name+".blockHash", 4), ResultsHash: zzBytes(name+".resultsHash", 4),
		Results:     &CertificateResult{},
		ProposerKey: zzBytes(name+".proposer", 3),
		Signature:   &AggregateSignature{Signature: zzBytes(name+".aggsig", 2), Bitmap: zzBytes(name+".bitmap", 1)},
	}
}

//zz:harness unwind=60
//zz:reach D2.qc.same D2.qc.differ
func ZZ_C19_D2_certificate_signbytes_cover_all_fields() {
	a, b := zzQCFull("a"), zzQCFull("b")
	blockA, sigA, resA := a.Block, a.Signature, a.Results
	sa, sb := a.SignBytes(), b.SignBytes()
	// SignBytes temporarily strips block / results / signature: they must be back afterwards
	zzAssert("D2.qc.restores-stripped-fields", bytes.Equal(a.Block, blockA) && a.Signature == sigA && a.Results == resA)
	if bytes.Equal(sa, sb) {
		zzReach("D2.qc.same")
		ha, hb := a.Header, b.Header
		zzAssert("D2.qc.header", ha.NetworkId == hb.NetworkId && ha.ChainId == hb.ChainId && ha.Height == hb.Height &&
			ha.RootHeight == hb.RootHeight && ha.Round == hb.Round && ha.Phase == hb.Phase)
		zzAssert("D2.qc.proposer-key", bytes.Equal(a.ProposerKey, b.ProposerKey))
		if ha.Phase != Phase_ELECTION_VOTE {
			zzAssert("D2.qc.block-hash", bytes.Equal(a.BlockHash, b.BlockHash))
			zzAssert("D2.qc.results-hash", bytes.Equal(a.ResultsHash, b.ResultsHash))
		}
	} else {
		zzReach("D2.qc.differ")
	}
}
