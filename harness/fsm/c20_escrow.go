package fsm

import (
	"github.com/canopy-network/canopy/lib"
)

// C20 / X1: escrow identity, one inductive step per message handler.
// World: chain 1 with one open sell order of symbolic size A owned by account 0 (its redundant
// Committee field is arbitrary: genesis import neither sets nor checks it), the escrow pool of
// chain 1 holding exactly A (the invariant), three accounts, the reward pool of chain 1.
// Invariant: escrow pool(chain) = sum of AmountForSale of the open orders of that chain.
// A message enters through its real stateless Check() and then the real handler, as in
// CheckMessage + HandleMessage; messages rejected by Check() are not executed.

var zzOrderId = []byte{0xAA, 0xBB, 0xCC, 0xDD, 0xAA, 0xBB, 0xCC, 0xDD, 0xAA, 0xBB, 0xCC, 0xDD, 0xAA, 0xBB, 0xCC, 0xDD, 0xAA, 0xBB, 0xCC, 0xDD}

func zzEscrowWorld(sm *StateMachine) (orderAmt uint64) {
	total := zzWorld3(sm)
	orderAmt = zzN64("orderAmount")
	// supply invariant (C04): all balances, pools and the escrowed amount sum to a total < 2^64
	zzAssume(orderAmt >= 1 && total+orderAmt >= total)
	if err := sm.SetOrder(&lib.SellOrder{Id: zzOrderId, Committee: zzU64("order.committeeField"), AmountForSale: orderAmt, RequestedAmount: 7,
		SellerReceiveAddress: zzAddr(0), SellersSendAddress: zzAddr(0)}, 1); err != nil {
		panic("SetOrder")
	}
	if err := sm.SetPool(&Pool{Id: 1 + EscrowPoolAddend, Amount: orderAmt}); err != nil {
		panic("SetPool")
	}
	sm.ResetCaches()
	return
}

func zzEscrowIdentity(sm *StateMachine, tag string) {
	book, err := sm.GetOrderBook(1)
	zzAssert(tag+".orderbook-readable", err == nil)
	var sum uint64
	wrapped := false
	for _, o := range book.Orders {
		if sum+o.AmountForSale < sum {
			wrapped = true
		}
		sum += o.AmountForSale
	}
	bal, err := sm.GetPoolBalance(1 + EscrowPoolAddend)
	zzAssert(tag+".pool-readable", err == nil)
	zzAssert(tag+".escrow-equals-open-orders", !wrapped && bal == sum)
}

//zz:harness mode=int unwind=60
//zz:reach X1.subsidy.ok
func ZZ_C20_X1_subsidy() {
	sm, _ := zzFSM(10)
	zzEscrowWorld(sm)
	msg := &MessageSubsidy{Address: zzAddr(1), ChainId: zzU64("chainId"), Amount: zzN64("amount"), Opcode: []byte{1}}
	if msg.Check() != nil {
		return
	}
	if sm.HandleMessageSubsidy(msg) == nil {
		zzReach("X1.subsidy.ok")
	}
	zzEscrowIdentity(sm, "X1.subsidy")
}

//zz:harness mode=int unwind=60
//zz:reach X1.create.ok
func ZZ_C20_X1_create_order() {
	sm, _ := zzFSM(10)
	zzEscrowWorld(sm)
	id2 := append([]byte{}, zzOrderId...)
	id2[0] = 0x01
	msg := &MessageCreateOrder{ChainId: 1, Data: nil, AmountForSale: zzN64("amount"), RequestedAmount: zzN64("req"),
		SellerReceiveAddress: zzAddr(1), SellersSendAddress: zzAddr(1), OrderId: id2}
	if sm.HandleMessageCreateOrder(msg) == nil {
		zzReach("X1.create.ok")
		zzEscrowIdentity(sm, "X1.create")
	}
}

//zz:harness mode=int unwind=60
//zz:reach X1.edit.ok
func ZZ_C20_X1_edit_order() {
	sm, _ := zzFSM(10)
	zzEscrowWorld(sm)
	msg := &MessageEditOrder{OrderId: zzOrderId, ChainId: 1, AmountForSale: zzN64("amount"), RequestedAmount: zzN64("req"), SellerReceiveAddress: zzAddr(0)}
	if sm.HandleMessageEditOrder(msg) == nil {
		zzReach("X1.edit.ok")
		zzEscrowIdentity(sm, "X1.edit")
	}
}

//zz:harness mode=int unwind=60
//zz:reach X1.delete.ok
func ZZ_C20_X1_delete_order_pays_once() {
	sm, _ := zzFSM(10)
	amt := zzEscrowWorld(sm)
	before, _ := sm.GetAccountBalance(zzCryptoAddr(0))
	msg := &MessageDeleteOrder{OrderId: zzOrderId, ChainId: 1}
	if sm.HandleMessageDeleteOrder(msg) == nil {
		zzReach("X1.delete.ok")
		zzEscrowIdentity(sm, "X1.delete")
		after, _ := sm.GetAccountBalance(zzCryptoAddr(0))
		zzAssert("X1.delete.refund-exact", after == before+amt)
		// a second delete of the same order is rejected or a no-op: never a second payment
		err2 := sm.HandleMessageDeleteOrder(msg)
		after2, _ := sm.GetAccountBalance(zzCryptoAddr(0))
		zzAssert("X1.delete.paid-once", after2 == after || err2 != nil)
		zzAssert("X1.delete.second-delete-no-payment", after2 == after)
	}
}

//zz:harness mode=int unwind=60
//zz:reach X1.close.ok
func ZZ_C20_X1_lock_close_pays_once() {
	sm, _ := zzFSM(10)
	amt := zzEscrowWorld(sm)
	if sm.LockOrder(&lib.LockOrder{OrderId: zzOrderId, ChainId: 1, BuyerReceiveAddress: zzAddr(2), BuyerSendAddress: zzAddr(2), BuyerChainDeadline: 100}, 1) != nil {
		return
	}
	zzEscrowIdentity(sm, "X1.lock")
	before, _ := sm.GetAccountBalance(zzCryptoAddr(2))
	if sm.CloseOrder(zzOrderId, 1) == nil {
		zzReach("X1.close.ok")
		zzEscrowIdentity(sm, "X1.close")
		after, _ := sm.GetAccountBalance(zzCryptoAddr(2))
		zzAssert("X1.close.buyer-paid-exactly", after == before+amt)
		err2 := sm.CloseOrder(zzOrderId, 1)
		after2, _ := sm.GetAccountBalance(zzCryptoAddr(2))
		zzAssert("X1.close.second-close-no-payment", err2 != nil && after2 == after)
	}
}

// X1 / committee instructions: the real HandleCommitteeSwaps with an arbitrary instruction set for
// the existing order - a lock (or none; thorough: also a second, conflicting lock), up to two reset
// instructions (one in the quick tier) and up to two close
// instructions naming the existing order or an unknown id, i.e. duplicates and lock / reset / close
// conflicts inside one certificate: the escrow identity survives, whoever is paid is paid at most
// the escrowed amount and at most once, and only the buyer recorded by the lock can be paid.
//
//zz:harness mode=int unwind=60 maxpaths=100000 timebudget=2400 param.fullswaps@thorough=1
//zz:reach X1.swaps.done X1.swaps.closed
func ZZ_C20_X1_committee_swaps_with_duplicates_and_conflicts() {
	sm, _ := zzFSM(10)
	amt := zzEscrowWorld(sm)
	other := append([]byte{}, zzOrderId...)
	other[0] = 0x02
	pick := func(name string) []byte {
		if zzBool(name) {
			return zzOrderId
		}
		return other
	}
	orders := &lib.Orders{}
	buyer := zzConcrete(zzInt("buyer"), 1, 2)
	if zzBool("lock") {
		orders.LockOrders = append(orders.LockOrders, &lib.LockOrder{OrderId: pick("lock.existing"), ChainId: 1, BuyerReceiveAddress: zzAddr(buyer), BuyerSendAddress: zzAddr(buyer), BuyerChainDeadline: 100})
	}
	if zzParam("fullswaps", 0) == 1 && zzBool("secondLock") {
		orders.LockOrders = append(orders.LockOrders, &lib.LockOrder{OrderId: zzOrderId, ChainId: 1, BuyerReceiveAddress: zzAddr(3 - buyer), BuyerSendAddress: zzAddr(3 - buyer), BuyerChainDeadline: 100})
	}
	for i, n := 0, zzConcrete(zzInt("resets"), 0, 1+zzParam("fullswaps", 0)); i < n; i++ {
		orders.ResetOrders = append(orders.ResetOrders, pick("reset.existing"))
	}
	for i, n := 0, zzConcrete(zzInt("closes"), 0, 2); i < n; i++ {
		orders.CloseOrders = append(orders.CloseOrders, pick("close.existing"))
	}
	before := zzBalances(sm)
	sm.HandleCommitteeSwaps(orders, 1)
	zzEscrowIdentity(sm, "X1.swaps")
	after := zzBalances(sm)
	var paid uint64
	for i := 0; i < 3; i++ {
		zzAssert("X1.swaps.nobody-is-debited", after[i] >= before[i])
		paid += after[i] - before[i]
	}
	zzAssert("X1.swaps.paid-at-most-once", paid == 0 || paid == amt)
	if paid != 0 {
		zzReach("X1.swaps.closed")
		zzAssert("X1.swaps.seller-is-never-the-payee", after[0] == before[0])
	}
	zzReach("X1.swaps.done")
}
