package fsm

import (
	"github.com/canopy-network/canopy/lib"
)

// C20 / X3a: DEX holding-pool identity for the three user-facing handlers, one inductive step each.
// World: counter chain 2 (the node is chain 1), a funded liquidity pool with one provider, a next
// batch that already holds one limit order and one deposit, the holding pool of chain 2 holding
// exactly their sum (the invariant), three accounts, supply invariant on the pre-state.
// Invariant: holding pool(chain) = sum of AmountForSale of the pending limit orders + sum of the
// pending liquidity deposits of that chain. Each handler - whatever the message fields - preserves
// it, debits exactly what it escrows from the sender only, and leaves the total supply alone.
// (Batch rotation, settlement and the per-batch caps of thousands of items are outside the bound.)

func zzDexWorld(sm *StateMachine) {
	total := zzWorld3(sm)
	orderAmt, depAmt, liq := zzN64("pendingOrder"), zzN64("pendingDeposit"), zzN64("liquidity")
	zzAssume(orderAmt >= 1 && depAmt >= 1 && liq < 1<<60 && orderAmt < 1<<60 && depAmt < 1<<60 && total < 1<<62)
	batch := &lib.DexBatch{Committee: 2,
		Orders:   []*lib.DexLimitOrder{{AmountForSale: orderAmt, RequestedAmount: 5, Address: zzAddr(0), OrderId: zzOrderId}},
		Deposits: []*lib.DexLiquidityDeposit{{Address: zzAddr(1), Amount: depAmt, OrderId: zzOrderId}}}
	if sm.SetDexBatch(KeyForNextBatch(2), batch) != nil {
		panic("batch")
	}
	lp := &Pool{Id: 2 + LiquidityPoolAddend, Amount: liq, TotalPoolPoints: 100, Points: []*lib.PoolPoints{{Address: zzAddr(0), Points: 100}}}
	if sm.SetPool(lp) != nil || sm.SetPool(&Pool{Id: 2 + HoldingPoolAddend, Amount: orderAmt + depAmt}) != nil {
		panic("pools")
	}
	sup, _ := sm.GetSupply()
	sup.Total = total + liq + orderAmt + depAmt
	if sm.SetSupply(sup) != nil {
		panic("supply")
	}
	sm.ResetCaches()
}

func zzHoldingIdentity(sm *StateMachine, tag string) {
	b, err := sm.GetDexBatch(2, false)
	zzAssert(tag+".batch-readable", err == nil)
	var sum uint64
	for _, o := range b.Orders {
		sum += o.AmountForSale
	}
	for _, d := range b.Deposits {
		sum += d.Amount
	}
	bal, e := sm.GetPoolBalance(2 + HoldingPoolAddend)
	zzAssert(tag+".pool-readable", e == nil)
	zzAssert(tag+".holding-equals-pending-orders-and-deposits", bal == sum)
}

//zz:harness mode=int unwind=60 maxpaths=60000 timebudget=1200
//zz:reach X3a.executed X3a.rejected
func ZZ_C20_X3a_dex_handlers_keep_holding_identity() {
	sm, _ := zzFSM(10)
	zzDexWorld(sm)
	who := zzConcrete(zzInt("sender"), 0, 2)
	chain := uint64(zzConcrete(zzInt("chain"), 1, 2)) // the node's own chain must be refused
	sup0, _ := sm.GetSupply()
	before := zzBalances(sm)
	amount := zzN64("amount")
	var err lib.ErrorI
	escrowed := amount
	switch zzConcrete(zzInt("kind"), 0, 2) {
	case 0:
		err = sm.HandleMessageDexLimitOrder(&MessageDexLimitOrder{ChainId: chain, AmountForSale: amount, RequestedAmount: zzN64("requested"), Address: zzAddr(who), OrderId: zzOrderId})
	case 1:
		err = sm.HandleMessageDexLiquidityDeposit(&MessageDexLiquidityDeposit{ChainId: chain, Amount: amount, Address: zzAddr(who), OrderId: zzOrderId})
	case 2:
		err = sm.HandleMessageDexLiquidityWithdraw(&MessageDexLiquidityWithdraw{ChainId: chain, Percent: zzN64("percent"), Address: zzAddr(who), OrderId: zzOrderId})
		escrowed = 0
	}
	if err != nil {
		zzReach("X3a.rejected")
		return
	}
	zzReach("X3a.executed")
	zzAssert("X3a.own-chain-is-refused", chain == 2)
	zzHoldingIdentity(sm, "X3a")
	after := zzBalances(sm)
	for i := 0; i < 3; i++ {
		if i == who {
			zzAssert("X3a.sender-debited-exactly-the-escrowed-amount", before[i]-after[i] == escrowed && after[i] <= before[i])
		} else {
			zzAssert("X3a.nobody-else-is-touched", after[i] == before[i])
		}
	}
	sup, _ := sm.GetSupply()
	zzAssert("X3a.total-supply-unchanged", sup.Total == sup0.Total)
	sm.ResetCaches()
	sum, ok := zzSumWorld(sm)
	zzAssert("X3a.total-equals-sum", ok && sum == sup.Total)
}
