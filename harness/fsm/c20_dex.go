package fsm

import (
	"github.com/canopy-network/canopy/lib"
	"github.com/canopy-network/canopy/lib/crypto"
)

// C20 / X3a: DEX holding-pool identity for the three user-facing handlers, one inductive step each.
// World: counter chain 2 (the node is chain 1), a funded liquidity pool with one provider, a next
// batch that already holds one limit order and one deposit, the holding pool of chain 2 holding
// exactly their sum (the invariant), three accounts, supply invariant on the pre-state.
// Invariant: holding pool(chain) = sum of AmountForSale of the pending limit orders + sum of the
// pending liquidity deposits of that chain. Each handler - whatever the message fields - preserves
// it, debits exactly what it escrows from the sender only, and leaves the total supply alone.
// (Batch rotation, settlement and the per-batch caps of thousands of items are outside the bound.)

func zzDexWorld(sm *StateMachine) {
	total := zzWorld3(sm)
	orderAmt, depAmt, liq := zzN64("pendingOrder"), zzN64("pendingDeposit"), zzN64("liquidity")
	zzAssume(orderAmt >= 1 && depAmt >= 1 && liq < 1<<60 && orderAmt < 1<<60 && depAmt < 1<<60 && total < 1<<62)
	// PoolSize is stored explicitly: the real GetDexBatch unmarshals INTO a batch pre-filled with the
	// pool's balance (protobuf merge keeps it when the stored field is absent), the boxing model of
	// Unmarshal replaces the whole value - storing the balance makes both read the same batch.
	batch := &lib.DexBatch{Committee: 2, PoolSize: liq,
		Orders:   []*lib.DexLimitOrder{{AmountForSale: orderAmt, RequestedAmount: 5, Address: zzAddr(0), OrderId: zzOrderId}},
		Deposits: []*lib.DexLiquidityDeposit{{Address: zzAddr(1), Amount: depAmt, OrderId: zzOrderId}}}
	if sm.SetDexBatch(KeyForNextBatch(2), batch) != nil {
		panic("batch")
	}
	lp := &Pool{Id: 2 + LiquidityPoolAddend, Amount: liq, TotalPoolPoints: 100, Points: []*lib.PoolPoints{{Address: zzAddr(0), Points: 100}}}
	if sm.SetPool(lp) != nil || sm.SetPool(&Pool{Id: 2 + HoldingPoolAddend, Amount: orderAmt + depAmt}) != nil {
		panic("pools")
	}
	sup, _ := sm.GetSupply()
	sup.Total = total + liq + orderAmt + depAmt
	if sm.SetSupply(sup) != nil {
		panic("supply")
	}
	sm.ResetCaches()
}

func zzHoldingIdentity(sm *StateMachine, tag string) {
	b, err := sm.GetDexBatch(2, false)
	zzAssert(tag+".batch-readable", err == nil)
	var sum uint64
	for _, o := range b.Orders {
		sum += o.AmountForSale
	}
	for _, d := range b.Deposits {
		sum += d.Amount
	}
	bal, e := sm.GetPoolBalance(2 + HoldingPoolAddend)
	zzAssert(tag+".pool-readable", e == nil)
	zzAssert(tag+".holding-equals-pending-orders-and-deposits", bal == sum)
}

//zz:harness mode=int unwind=60 maxpaths=60000 timebudget=1200
//zz:reach X3a.executed X3a.rejected
func ZZ_C20_X3a_dex_handlers_keep_holding_identity() {
	sm, _ := zzFSM(10)
	zzDexWorld(sm)
	who := zzConcrete(zzInt("sender"), 0, 2)
	chain := uint64(zzConcrete(zzInt("chain"), 1, 2)) // the node's own chain must be refused
	sup0, _ := sm.GetSupply()
	before := zzBalances(sm)
	amount := zzN64("amount")
	var err lib.ErrorI
	escrowed := amount
	switch zzConcrete(zzInt("kind"), 0, 2) {
	case 0:
		err = sm.HandleMessageDexLimitOrder(&MessageDexLimitOrder{ChainId: chain, AmountForSale: amount, RequestedAmount: zzN64("requested"), Address: zzAddr(who), OrderId: zzOrderId})
	case 1:
		err = sm.HandleMessageDexLiquidityDeposit(&MessageDexLiquidityDeposit{ChainId: chain, Amount: amount, Address: zzAddr(who), OrderId: zzOrderId})
	case 2:
		err = sm.HandleMessageDexLiquidityWithdraw(&MessageDexLiquidityWithdraw{ChainId: chain, Percent: zzN64("percent"), Address: zzAddr(who), OrderId: zzOrderId})
		escrowed = 0
	}
	if err != nil {
		zzReach("X3a.rejected")
		return
	}
	zzReach("X3a.executed")
	zzAssert("X3a.own-chain-is-refused", chain == 2)
	zzHoldingIdentity(sm, "X3a")
	after := zzBalances(sm)
	for i := 0; i < 3; i++ {
		if i == who {
			zzAssert("X3a.sender-debited-exactly-the-escrowed-amount", before[i]-after[i] == escrowed && after[i] <= before[i])
		} else {
			zzAssert("X3a.nobody-else-is-touched", after[i] == before[i])
		}
	}
	sup, _ := sm.GetSupply()
	zzAssert("X3a.total-supply-unchanged", sup.Total == sup0.Total)
	sm.ResetCaches()
	sum, ok := zzSumWorld(sm)
	zzAssert("X3a.total-equals-sum", ok && sum == sup.Total)
}

// C20 / X3b: batch settlement of liquidity withdrawals (the real handleBatchWithdraw, local side),
// one inductive step from an arbitrary valid pool: a dead-address entry plus two providers with
// symbolic points, symbolic local reserve x (= the pool's balance) and counter-chain mirror y, and a
// batch of one or two withdrawals naming provider 0, provider 1 or a non-provider - the same provider
// may be named twice (duplicate instructions inside one batch). Percent is 0..100 (CheckBasic of the
// message bounds it; remote batches are certified by the counter chain's committee).
// Obligations: points still sum to the total and no zero-point entry is left; the pool balance is the
// new reserve; what leaves the pool is exactly what the accounts receive (nothing minted, nothing
// burned); nobody receives more than the pro-rata share of the points they held; a provider that
// did not ask keeps its points; nothing underflows. Bound: the reserves x and y are arbitrary
// 62-bit / 64-bit values, provider 1 holds 10 points, provider 0 holds 3 (quick) or 3 or 1 (thorough),
// the dead address holds 1 or 1000 points and the percents are 50 or 100 (quick) or 0, 50, 100
// (thorough) - with symbolic points or percents the chained floor
// divisions have symbolic divisors, which none of the solvers decided even for values <= 63 (the
// single SafeMulDiv floor lemma X2.md is proved at 64 bits for arbitrary operands).
//
//zz:harness mode=int unwind=60 maxpaths=200000 timebudget=5400 obtimeout=120 param.p0max@quick=0 param.pctmax@quick=1 param.p0max@thorough=1 param.pctmax@thorough=2
//zz:reach X3b.done X3b.paid
func ZZ_C20_X3b_batch_withdraw_pays_shares_once() {
	sm, _ := zzFSM(10)
	total := zzWorld3(sm)
	x, y := zzN64("x"), zzN64("y")
	pts := []uint64{3, 1, 10}
	pd := []uint64{1, 1000}[zzConcrete(zzInt("deadPoints"), 0, 1)]
	// provider 1 holds 10 points; provider 0 holds 3 (quick) or 3 or 1 (thorough)
	p0, p1 := pts[zzConcrete(zzInt("points0"), 0, zzParam("p0max", 1))], pts[2]
	zzAssume(total < 1<<62 && x < 1<<62)
	// a pool that carries points holds tokens (SetPool deletes a pool whose balance is zero, points
	// included); the obligation X3b.reserve-not-emptied keeps this inductive
	zzAssume(x >= 1)
	dead := []byte{0xde, 0xad, 0xde, 0xad, 0xde, 0xad, 0xde, 0xad, 0xde, 0xad, 0xde, 0xad, 0xde, 0xad, 0xde, 0xad, 0xde, 0xad, 0xde, 0xad}
	T := pd + p0 + p1
	lp := &Pool{Id: 2 + LiquidityPoolAddend, Amount: x, TotalPoolPoints: T,
		Points: []*lib.PoolPoints{{Address: dead, Points: pd}, {Address: zzAddr(0), Points: p0}, {Address: zzAddr(1), Points: p1}}}
	if sm.SetPool(lp) != nil {
		panic("pool")
	}
	sup, _ := sm.GetSupply()
	sup.Total = total + x
	if sm.SetSupply(sup) != nil {
		panic("supply")
	}
	sm.ResetCaches()
	before := zzBalances(sm)
	nw := zzConcrete(zzInt("withdrawals"), 1, 2)
	batch := &lib.DexBatch{Committee: 2}
	var who [2]int
	var pct [2]uint64
	for i := 0; i < nw; i++ {
		who[i] = zzConcrete(zzInt("withdrawer"), 0, 2) // 2 = holds no points
		pct[i] = []uint64{50, 100, 0}[zzConcrete(zzInt("percent"), 0, zzParam("pctmax", 2))]
		batch.Withdrawals = append(batch.Withdrawals, &lib.DexLiquidityWithdraw{Address: zzAddr(who[i]), Percent: pct[i], OrderId: zzOrderId})
	}
	xx, yy := x, y
	err := sm.HandleBatchWithdraw(batch, 2, &xx, &yy, true)
	zzAssert("X3b.never-fails-on-a-valid-pool", err == nil)
	if err != nil {
		return
	}
	sm.ResetCaches()
	p, e := sm.GetPool(2 + LiquidityPoolAddend)
	zzAssert("X3b.pool-readable", e == nil)
	var sum uint64
	held := [3]uint64{}
	for _, pt := range p.Points {
		sum += pt.Points
		zzAssert("X3b.no-zero-point-entry-left", pt.Points != 0)
		for i := 0; i < 2; i++ {
			if string(pt.Address) == string(zzAddr(i)) {
				held[i] = pt.Points
			}
		}
		if string(pt.Address) == string(dead) {
			held[2] = pt.Points
		}
	}
	zzAssert("X3b.points-sum-to-the-total", sum == p.TotalPoolPoints)
	zzAssert("X3b.dead-address-points-untouched", held[2] == pd)
	zzAssert("X3b.pool-balance-is-the-new-reserve", p.Amount == xx)
	zzAssert("X3b.reserves-only-shrink", xx <= x && yy <= y)
	zzAssert("X3b.reserve-not-emptied", xx >= 1)
	after := zzBalances(sm)
	var paid uint64
	old := [2]uint64{p0, p1}
	for i := 0; i < 3; i++ {
		zzAssert("X3b.accounts-only-grow", after[i] >= before[i])
		got := after[i] - before[i]
		paid += got
		if i < 2 {
			asked := false
			for j := 0; j < nw; j++ {
				asked = asked || who[j] == i
			}
			zzAssert("X3b.points-never-grow", held[i] <= old[i])
			if !asked {
				zzAssert("X3b.provider-that-did-not-ask-keeps-its-points", held[i] == old[i] && got == 0)
			}
			// pro-rata: got / x <= burned points / T  (floor rounding only ever favours the pool)
			zzAssert("X3b.payout-within-the-share-of-the-burned-points", zzBigMul(got, T).Cmp(zzBigMul(x, old[i]-held[i])) <= 0)
		} else {
			zzAssert("X3b.non-provider-receives-nothing", got == 0)
		}
	}
	if paid > 0 {
		zzReach("X3b.paid")
	}
	zzAssert("X3b.pool-pays-exactly-what-accounts-receive", x-xx == paid)
	sup1, _ := sm.GetSupply()
	zzAssert("X3b.total-supply-unchanged", sup1.Total == total+x)
	zzReach("X3b.done")
}

// C20 / X3c: batch settlement of liquidity deposits (the real handleBatchDeposit, local side), one
// inductive step: a live pool (reserve x >= 1, mirror y >= 1, dead-address points plus one provider),
// the holding pool holding the batch's deposits plus an arbitrary rest (next batch), and a batch of
// one deposit (quick tier) or one or two (thorough) by the existing provider or by newcomers, amounts
// arbitrary incl. 0 - the same address may deposit twice. The AMOUNT of points minted is abstracted: liquidityDepositPoints and
// the pro-rata split lib.SafeMulDiv return arbitrary values here (their arithmetic is X2.lp / X2.md);
// what is decided is the token and points BOOK-KEEPING, for any minted amounts whatsoever:
// every deposit of the batch leaves the holding pool and reaches the liquidity pool - exactly once,
// also when its share of the points rounds to zero -, accounts are not touched, the total supply
// is unchanged, the pool balance is the new reserve, points sum to the pool's total, no provider
// loses points and no zero-point entry is created.
//
//zz:harness mode=int unwind=60 maxpaths=200000 timebudget=3600 param.maxdeposits@quick=1 param.maxdeposits@thorough=2
//zz:stub github.com/canopy-network/canopy/fsm.liquidityDepositPoints harness zzArbitraryPoints
//zz:stub github.com/canopy-network/canopy/lib.SafeMulDiv harness zzArbitraryShare
//zz:reach X3c.done X3c.settled X3c.failed
func ZZ_C20_X3c_batch_deposit_moves_every_deposit_once() {
	sm, _ := zzFSM(10)
	total := zzWorld3(sm)
	dead := []byte{0xde, 0xad, 0xde, 0xad, 0xde, 0xad, 0xde, 0xad, 0xde, 0xad, 0xde, 0xad, 0xde, 0xad, 0xde, 0xad, 0xde, 0xad, 0xde, 0xad}
	deadAddr = crypto.NewAddress(dead)
	x, y, rest := zzN64("x"), zzN64("y"), zzN64("holdingRest")
	pd, p0 := zzN64("deadPoints"), zzN64("points0")
	zzAssume(x >= 1 && y >= 1 && pd >= 1 && p0 >= 1)
	zzAssume(total < 1<<60 && x < 1<<60 && rest < 1<<60 && pd < 1<<60 && p0 < 1<<60)
	nd := zzConcrete(zzInt("deposits"), 1, zzParam("maxdeposits", 2))
	batch := &lib.DexBatch{Committee: 2}
	var who [2]int
	var amt [2]uint64
	var sumDep uint64
	for i := 0; i < nd; i++ {
		who[i] = zzConcrete(zzInt("depositor"), 0, 2) // 0 = holds points already, 1 and 2 are newcomers
		amt[i] = zzN64("deposit")
		zzAssume(amt[i] < 1<<60)
		sumDep += amt[i]
		batch.Deposits = append(batch.Deposits, &lib.DexLiquidityDeposit{Address: zzAddr(who[i]), Amount: amt[i], OrderId: zzOrderId})
	}
	lp := &Pool{Id: 2 + LiquidityPoolAddend, Amount: x, TotalPoolPoints: pd + p0,
		Points: []*lib.PoolPoints{{Address: dead, Points: pd}, {Address: zzAddr(0), Points: p0}}}
	if sm.SetPool(lp) != nil || sm.SetPool(&Pool{Id: 2 + HoldingPoolAddend, Amount: sumDep + rest}) != nil {
		panic("pools")
	}
	sup, _ := sm.GetSupply()
	sup.Total = total + x + sumDep + rest
	if sm.SetSupply(sup) != nil {
		panic("supply")
	}
	sm.ResetCaches()
	before := zzBalances(sm)
	xx, yy := x, y
	err := sm.HandleBatchDeposit(batch, 2, &xx, &yy, true)
	if err != nil {
		// only an arithmetic guard of the points ledger may refuse a batch (the abstracted minted
		// amounts are arbitrary, so overflowing ones exist)
		zzReach("X3c.failed")
		return
	}
	sm.ResetCaches()
	hold, e1 := sm.GetPoolBalance(2 + HoldingPoolAddend)
	p, e2 := sm.GetPool(2 + LiquidityPoolAddend)
	zzAssert("X3c.pools-readable", e1 == nil && e2 == nil)
	if sumDep == 0 {
		zzAssert("X3c.empty-deposits-move-nothing", hold == rest && p.Amount == x && xx == x)
		zzReach("X3c.done")
		return
	}
	zzReach("X3c.settled")
	zzAssert("X3c.every-deposit-leaves-the-holding-pool-once", hold == rest)
	zzAssert("X3c.every-deposit-reaches-the-liquidity-pool-once", p.Amount == x+sumDep)
	zzAssert("X3c.pool-balance-is-the-new-reserve", p.Amount == xx)
	zzAssert("X3c.mirror-untouched", yy == y)
	after := zzBalances(sm)
	for i := 0; i < 3; i++ {
		zzAssert("X3c.accounts-untouched", after[i] == before[i])
	}
	var sum, held0, heldDead uint64
	for _, pt := range p.Points {
		sum += pt.Points
		zzAssert("X3c.no-zero-point-entry", pt.Points != 0)
		if string(pt.Address) == string(zzAddr(0)) {
			held0 = pt.Points
		}
		if string(pt.Address) == string(dead) {
			heldDead = pt.Points
		}
		for i := 0; i < nd; i++ {
			if string(pt.Address) == string(zzAddr(who[i])) && who[i] != 0 {
				zzAssert("X3c.newcomer-with-points-deposited-something", amt[0]+amt[1] > 0)
			}
		}
	}
	zzAssert("X3c.points-sum-to-the-total", sum == p.TotalPoolPoints)
	zzAssert("X3c.nobody-loses-points", held0 >= p0 && heldDead >= pd)
	sup1, _ := sm.GetSupply()
	zzAssert("X3c.total-supply-unchanged", sup1.Total == total+x+sumDep+rest)
	s2, ok := zzSumWorld(sm)
	zzAssert("X3c.total-equals-sum", ok && s2 == sup1.Total)
	zzReach("X3c.done")
}

func zzArbitraryPoints(totalPoints, x, y, amount uint64) (uint64, lib.ErrorI) {
	if zzBool("pointsError") {
		return 0, ErrInvalidLiquidityPool()
	}
	return zzN64("mintedPoints"), nil
}

func zzArbitraryShare(a, b, c uint64) uint64 { return zzN64("share") }

// C20 / X3d: receipts for our locked batch (the real HandleReceiptsForOurLockedBatch ->
// HandleOrderReceipts -> HandleBatchDeposit -> lock lifted), one inductive step. The locked batch
// holds one limit order (quick tier) or one or two (thorough) and at most one deposit; the holding pool holds exactly their sum
// plus an arbitrary rest (the next batch). The counter chain's answer carries arbitrary receipts
// (0 = order failed) and either this batch's hash and the right number of receipts, or not.
// Obligations: an answer for another batch (or with a wrong receipt count) changes nothing and keeps
// the lock; a matching answer settles every order and deposit exactly once - the holding pool is
// left with the rest, a failed order is refunded exactly its amount to its owner, a successful one
// moves exactly its amount into the liquidity pool and advances the mirror by its receipt, nobody
// else's balance moves, the total supply is unchanged and still the sum of everything stored - and
// lifts the lock. Minted point amounts are abstracted as in X3c; withdrawals are X3b.
//
//zz:harness mode=int unwind=60 maxpaths=400000 timebudget=5400 param.maxorders@quick=1 param.maxorders@thorough=2
//zz:stub github.com/canopy-network/canopy/fsm.liquidityDepositPoints harness zzArbitraryPoints
//zz:stub github.com/canopy-network/canopy/lib.SafeMulDiv harness zzArbitraryShare
//zz:reach X3d.done X3d.settled X3d.waiting X3d.refunded X3d.swapped
func ZZ_C20_X3d_receipts_settle_the_locked_batch_once() {
	sm, _ := zzFSM(10)
	total := zzWorld3(sm)
	dead := []byte{0xde, 0xad, 0xde, 0xad, 0xde, 0xad, 0xde, 0xad, 0xde, 0xad, 0xde, 0xad, 0xde, 0xad, 0xde, 0xad, 0xde, 0xad, 0xde, 0xad}
	deadAddr = crypto.NewAddress(dead)
	x, y, rest := zzN64("x"), zzN64("y"), zzN64("holdingRest")
	pd, p0 := zzN64("deadPoints"), zzN64("points0")
	zzAssume(x >= 1 && y >= 1 && pd >= 1 && p0 >= 1)
	zzAssume(total < 1<<60 && x < 1<<60 && y < 1<<60 && rest < 1<<60 && pd < 1<<60 && p0 < 1<<60)
	no, nd := zzConcrete(zzInt("orders"), 1, zzParam("maxorders", 2)), zzConcrete(zzInt("deposits"), 0, 1)
	batch := &lib.DexBatch{Committee: 2}
	var owner [2]int
	var amt, receipt [2]uint64
	var sum uint64
	for i := 0; i < no; i++ {
		owner[i] = zzConcrete(zzInt("owner"), 0, 2)
		amt[i], receipt[i] = zzN64("forSale"), zzN64("receipt")
		zzAssume(amt[i] >= 1 && amt[i] < 1<<60)
		sum += amt[i]
		batch.Orders = append(batch.Orders, &lib.DexLimitOrder{AmountForSale: amt[i], RequestedAmount: zzN64("requested"), Address: zzAddr(owner[i]), OrderId: zzOrderId})
	}
	var dep uint64
	if nd == 1 {
		dep = zzN64("deposit")
		zzAssume(dep < 1<<60)
		batch.Deposits = []*lib.DexLiquidityDeposit{{Address: zzAddr(zzConcrete(zzInt("depositor"), 0, 2)), Amount: dep, OrderId: zzOrderId}}
	}
	lp := &Pool{Id: 2 + LiquidityPoolAddend, Amount: x, TotalPoolPoints: pd + p0,
		Points: []*lib.PoolPoints{{Address: dead, Points: pd}, {Address: zzAddr(0), Points: p0}}}
	if sm.SetDexBatch(KeyForLockedBatch(2), batch) != nil || sm.SetPool(lp) != nil || sm.SetPool(&Pool{Id: 2 + HoldingPoolAddend, Amount: sum + dep + rest}) != nil {
		panic("world")
	}
	sup, _ := sm.GetSupply()
	sup.Total = total + x + sum + dep + rest
	if sm.SetSupply(sup) != nil {
		panic("supply")
	}
	sm.ResetCaches()
	local, e0 := sm.GetDexBatch(2, true)
	if e0 != nil {
		panic("locked batch")
	}
	remote := &lib.DexBatch{Committee: 1, ReceiptHash: local.Hash()}
	for i := 0; i < no; i++ {
		remote.Receipts = append(remote.Receipts, receipt[i])
	}
	matching := true
	switch zzConcrete(zzInt("answer"), 0, 2) {
	case 1: // an answer for some other batch
		remote.ReceiptHash, matching = []byte{1, 2, 3}, false
	case 2: // right hash, one receipt too many
		remote.Receipts, matching = append(remote.Receipts, zzN64("extraReceipt")), false
	}
	before := zzBalances(sm)
	mirror := y
	locked, err := sm.HandleReceiptsForOurLockedBatch(remote, &mirror, 2)
	if err != nil {
		return // a receipt that exceeds the mirror, or an arithmetic guard of the abstracted points
	}
	sm.ResetCaches()
	hold, _ := sm.GetPoolBalance(2 + HoldingPoolAddend)
	liq, _ := sm.GetPoolBalance(2 + LiquidityPoolAddend)
	after := zzBalances(sm)
	stillLocked := zzHasKey(sm, KeyForLockedBatch(2))
	if !matching {
		zzReach("X3d.waiting")
		zzAssert("X3d.foreign-answer-keeps-the-lock", locked && stillLocked)
		zzAssert("X3d.foreign-answer-moves-nothing", hold == sum+dep+rest && liq == x && mirror == y)
		for i := 0; i < 3; i++ {
			zzAssert("X3d.foreign-answer-moves-nothing", after[i] == before[i])
		}
		zzReach("X3d.done")
		return
	}
	zzReach("X3d.settled")
	zzAssert("X3d.lock-lifted", !locked && !stillLocked)
	zzAssert("X3d.holding-pool-left-with-the-next-batch-only", hold == rest)
	var refund [3]uint64
	var swapped, paidByCounter uint64
	for i := 0; i < no; i++ {
		if receipt[i] == 0 {
			refund[owner[i]] += amt[i]
			zzReach("X3d.refunded")
		} else {
			swapped += amt[i]
			paidByCounter += receipt[i]
			zzReach("X3d.swapped")
		}
	}
	for i := 0; i < 3; i++ {
		zzAssert("X3d.failed-orders-refunded-exactly-once-nobody-else-paid", after[i] >= before[i] && after[i]-before[i] == refund[i])
	}
	zzAssert("X3d.successful-orders-and-deposits-reach-the-liquidity-pool", liq == x+swapped+dep)
	zzAssert("X3d.mirror-advanced-by-the-receipts", mirror == y-paidByCounter && paidByCounter < y)
	sup1, _ := sm.GetSupply()
	zzAssert("X3d.total-supply-unchanged", sup1.Total == total+x+sum+dep+rest)
	s2, ok := zzSumWorld(sm)
	zzAssert("X3d.total-equals-sum", ok && s2 == sup1.Total)
	zzReach("X3d.done")
}
