package fsm

import (
	"github.com/canopy-network/canopy/lib"
)

// C20 / X3a: DEX holding-pool identity for the three user-facing handlers, one inductive step each.
// World: counter chain 2 (the node is chain 1), a funded liquidity pool with one provider, a next
// batch that already holds one limit order and one deposit, the holding pool of chain 2 holding
// exactly their sum (the invariant), three accounts, supply invariant on the pre-state.
// Invariant: holding pool(chain) = sum of AmountForSale of the pending limit orders + sum of the
// pending liquidity deposits of that chain. Each handler - whatever the message fields - preserves
// it, debits exactly what it escrows from the sender only, and leaves the total supply alone.
// (Batch rotation, settlement and the per-batch caps of thousands of items are outside the bound.)

func zzDexWorld(sm *StateMachine) {
	total := zzWorld3(sm)
	orderAmt, depAmt, liq := zzN64("pendingOrder"), zzN64("pendingDeposit"), zzN64("liquidity")
	zzAssume(orderAmt >= 1 && depAmt >= 1 && liq < 1<<60 && orderAmt < 1<<60 && depAmt < 1<<60 && total < 1<<62)
	batch := &lib.DexBatch{Committee: 2,
		Orders:   []*lib.DexLimitOrder{{AmountForSale: orderAmt, RequestedAmount: 5, Address: zzAddr(0), OrderId: zzOrderId}},
		Deposits: []*lib.DexLiquidityDeposit{{Address: zzAddr(1), Amount: depAmt, OrderId: zzOrderId}}}
	if sm.SetDexBatch(KeyForNextBatch(2), batch) != nil {
		panic("batch")
	}
	lp := &Pool{Id: 2 + LiquidityPoolAddend, Amount: liq, TotalPoolPoints: 100, Points: []*lib.PoolPoints{{Address: zzAddr(0), Points: 100}}}
	if sm.SetPool(lp) != nil || sm.SetPool(&Pool{Id: 2 + HoldingPoolAddend, Amount: orderAmt + depAmt}) != nil {
		panic("pools")
	}
	sup, _ := sm.GetSupply()
	sup.Total = total + liq + orderAmt + depAmt
	if sm.SetSupply(sup) != nil {
		panic("supply")
	}
	sm.ResetCaches()
}

func zzHoldingIdentity(sm *StateMachine, tag string) {
	b, err := sm.GetDexBatch(2, false)
	zzAssert(tag+".batch-readable", err == nil)
	var sum uint64
	for _, o := range b.Orders {
		sum += o.AmountForSale
	}
	for _, d := range b.Deposits {
		sum += d.Amount
	}
	bal, e := sm.GetPoolBalance(2 + HoldingPoolAddend)
	zzAssert(tag+".pool-readable", e == nil)
	zzAssert(tag+".holding-equals-pending-orders-and-deposits", bal == sum)
}

//zz:harness mode=int unwind=60 maxpaths=60000 timebudget=1200
//zz:reach X3a.executed X3a.rejected
func ZZ_C20_X3a_dex_handlers_keep_holding_identity() {
	sm, _ := zzFSM(10)
	zzDexWorld(sm)
	who := zzConcrete(zzInt("sender"), 0, 2)
	chain := uint64(zzConcrete(zzInt("chain"), 1, 2)) // the node's own chain must be refused
	sup0, _ := sm.GetSupply()
	before := zzBalances(sm)
	amount := zzN64("amount")
	var err lib.ErrorI
	escrowed := amount
	switch zzConcrete(zzInt("kind"), 0, 2) {
	case 0:
		err = sm.HandleMessageDexLimitOrder(&MessageDexLimitOrder{ChainId: chain, AmountForSale: amount, RequestedAmount: zzN64("requested"), Address: zzAddr(who), OrderId: zzOrderId})
	case 1:
		err = sm.HandleMessageDexLiquidityDeposit(&MessageDexLiquidityDeposit{ChainId: chain, Amount: amount, Address: zzAddr(who), OrderId: zzOrderId})
	case 2:
		err = sm.HandleMessageDexLiquidityWithdraw(&MessageDexLiquidityWithdraw{ChainId: chain, Percent: zzN64("percent"), Address: zzAddr(who), OrderId: zzOrderId})
		escrowed = 0
	}
	if err != nil {
		zzReach("X3a.rejected")
		return
	}
	zzReach("X3a.executed")
	zzAssert("X3a.own-chain-is-refused", chain == 2)
	zzHoldingIdentity(sm, "X3a")
	after := zzBalances(sm)
	for i := 0; i < 3; i++ {
		if i == who {
			zzAssert("X3a.sender-debited-exactly-the-escrowed-amount", before[i]-after[i] == escrowed && after[i] <= before[i])
		} else {
			zzAssert("X3a.nobody-else-is-touched", after[i] == before[i])
		}
	}
	sup, _ := sm.GetSupply()
	zzAssert("X3a.total-supply-unchanged", sup.Total == sup0.Total)
	sm.ResetCaches()
	sum, ok := zzSumWorld(sm)
	zzAssert("X3a.total-equals-sum", ok && sum == sup.Total)
}

// C20 / X3b: batch settlement of liquidity withdrawals (the real handleBatchWithdraw, local side),
// one inductive step from an arbitrary valid pool: a dead-address entry plus two providers with
// symbolic points, symbolic local reserve x (= the pool's balance) and counter-chain mirror y, and a
// batch of one or two withdrawals naming provider 0, provider 1 or a non-provider - the same provider
// may be named twice (duplicate instructions inside one batch). Percent is 0..100 (CheckBasic of the
// message bounds it; remote batches are certified by the counter chain's committee).
// Obligations: points still sum to the total and no zero-point entry is left; the pool balance is the
// new reserve; what leaves the pool is exactly what the accounts receive (nothing minted, nothing
// burned); nobody receives more than the pro-rata share of the points they held; a provider that
// did not ask keeps its points; nothing underflows. Bound: the reserves x and y are arbitrary
// 62-bit / 64-bit values, provider points are taken from {1,3,10}, the dead address holds 1 or 1000
// points and the percents are 0, 1, 50 or 100 - with symbolic points or percents the chained floor
// divisions have symbolic divisors, which none of the solvers decided even for values <= 63 (the
// single SafeMulDiv floor lemma X2.md is proved at 64 bits for arbitrary operands).
//
//zz:harness mode=int unwind=60 maxpaths=60000 timebudget=1500 obtimeout=120
//zz:reach X3b.done X3b.paid
func ZZ_C20_X3b_batch_withdraw_pays_shares_once() {
	sm, _ := zzFSM(10)
	total := zzWorld3(sm)
	x, y := zzN64("x"), zzN64("y")
	pts := []uint64{1, 3, 10}
	pd := []uint64{1, 1000}[zzConcrete(zzInt("deadPoints"), 0, 1)]
	p0, p1 := pts[zzConcrete(zzInt("points0"), 0, 2)], pts[zzConcrete(zzInt("points1"), 0, 2)]
	zzAssume(total < 1<<62 && x < 1<<62)
	// a pool that carries points holds tokens (SetPool deletes a pool whose balance is zero, points
	// included); the obligation X3b.reserve-not-emptied keeps this inductive
	zzAssume(x >= 1)
	dead := []byte{0xde, 0xad, 0xde, 0xad, 0xde, 0xad, 0xde, 0xad, 0xde, 0xad, 0xde, 0xad, 0xde, 0xad, 0xde, 0xad, 0xde, 0xad, 0xde, 0xad}
	T := pd + p0 + p1
	lp := &Pool{Id: 2 + LiquidityPoolAddend, Amount: x, TotalPoolPoints: T,
		Points: []*lib.PoolPoints{{Address: dead, Points: pd}, {Address: zzAddr(0), Points: p0}, {Address: zzAddr(1), Points: p1}}}
	if sm.SetPool(lp) != nil {
		panic("pool")
	}
	sup, _ := sm.GetSupply()
	sup.Total = total + x
	if sm.SetSupply(sup) != nil {
		panic("supply")
	}
	sm.ResetCaches()
	before := zzBalances(sm)
	nw := zzConcrete(zzInt("withdrawals"), 1, 2)
	batch := &lib.DexBatch{Committee: 2}
	var who [2]int
	var pct [2]uint64
	for i := 0; i < nw; i++ {
		who[i] = zzConcrete(zzInt("withdrawer"), 0, 2) // 2 = holds no points
		pct[i] = []uint64{0, 1, 50, 100}[zzConcrete(zzInt("percent"), 0, 3)]
		batch.Withdrawals = append(batch.Withdrawals, &lib.DexLiquidityWithdraw{Address: zzAddr(who[i]), Percent: pct[i], OrderId: zzOrderId})
	}
	xx, yy := x, y
	err := sm.HandleBatchWithdraw(batch, 2, &xx, &yy, true)
	zzAssert("X3b.never-fails-on-a-valid-pool", err == nil)
	if err != nil {
		return
	}
	sm.ResetCaches()
	p, e := sm.GetPool(2 + LiquidityPoolAddend)
	zzAssert("X3b.pool-readable", e == nil)
	var sum uint64
	held := [3]uint64{}
	for _, pt := range p.Points {
		sum += pt.Points
		zzAssert("X3b.no-zero-point-entry-left", pt.Points != 0)
		for i := 0; i < 2; i++ {
			if string(pt.Address) == string(zzAddr(i)) {
				held[i] = pt.Points
			}
		}
		if string(pt.Address) == string(dead) {
			held[2] = pt.Points
		}
	}
	zzAssert("X3b.points-sum-to-the-total", sum == p.TotalPoolPoints)
	zzAssert("X3b.dead-address-points-untouched", held[2] == pd)
	zzAssert("X3b.pool-balance-is-the-new-reserve", p.Amount == xx)
	zzAssert("X3b.reserves-only-shrink", xx <= x && yy <= y)
	zzAssert("X3b.reserve-not-emptied", xx >= 1)
	after := zzBalances(sm)
	var paid uint64
	old := [2]uint64{p0, p1}
	for i := 0; i < 3; i++ {
		zzAssert("X3b.accounts-only-grow", after[i] >= before[i])
		got := after[i] - before[i]
		paid += got
		if i < 2 {
			asked := false
			for j := 0; j < nw; j++ {
				asked = asked || who[j] == i
			}
			zzAssert("X3b.points-never-grow", held[i] <= old[i])
			if !asked {
				zzAssert("X3b.provider-that-did-not-ask-keeps-its-points", held[i] == old[i] && got == 0)
			}
			// pro-rata: got / x <= burned points / T  (floor rounding only ever favours the pool)
			zzAssert("X3b.payout-within-the-share-of-the-burned-points", zzBigMul(got, T).Cmp(zzBigMul(x, old[i]-held[i])) <= 0)
		} else {
			zzAssert("X3b.non-provider-receives-nothing", got == 0)
		}
	}
	if paid > 0 {
		zzReach("X3b.paid")
	}
	zzAssert("X3b.pool-pays-exactly-what-accounts-receive", x-xx == paid)
	sup1, _ := sm.GetSupply()
	zzAssert("X3b.total-supply-unchanged", sup1.Total == total+x)
	zzReach("X3b.done")
}
