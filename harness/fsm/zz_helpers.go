package fsm

import (
	"math/big"

	"github.com/canopy-network/canopy/lib/crypto"
)

// helpers shared by the fsm harnesses (pure Go; executed symbolically like any other code)

func zzBigMul(a, b uint64) *big.Int {
	return new(big.Int).Mul(new(big.Int).SetUint64(a), new(big.Int).SetUint64(b))
}

// zzFitsU64: floor(a*b/c) < 2^64 (c > 0)
func zzFitsU64(a, b, c uint64) bool {
	if c == 0 {
		return true
	}
	return new(big.Int).Div(zzBigMul(a, b), new(big.Int).SetUint64(c)).IsUint64()
}

// errOrNil converts a lib.ErrorI (interface holding a possibly typed nil) into a plain error.
func errOrNil(e interface{ Error() string }) error {
	if e == nil {
		return nil
	}
	return e
}

func zzCryptoAddr(i int) crypto.AddressI { return crypto.NewAddress(zzAddr(i)) }
