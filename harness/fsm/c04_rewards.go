package fsm

import (
	"github.com/canopy-network/canopy/lib"
	"github.com/canopy-network/canopy/lib/crypto"
)

// C04, automatic money movements (one inductive step each, integer encoding, full 64-bit range):
//   mint     FundCommitteeRewardPools creates exactly daoCut + n * perCommittee <= the block's mint
//            amount, recorded in Supply.Total, and the sum over what is stored still equals the total
//   rewards  DistributeCommitteeRewards pays out of a committee's reward pool to an ordinary account
//            and to a validator (compounding into its stake, or to its output address with the early
//            withdrawal penalty), empties the pool and burns the remainder: the total never grows, it
//            shrinks by exactly what was not paid, and total = sum afterwards. The side invariant on
//            the committee data (payment percents of a committee add up to <= 100 per sample) is the
//            documented precondition; without it the payout would exceed the pool.

// zzRewardWorld: accounts 1 and 2, validator 0 (symbolic stake, compound flag, unstaking or not,
// output = account 1), the reward pool of chain 1 and the DAO pool; Supply.Total = sum.
var zzRewardCommittees = []uint64{1}

func zzRewardWorld(sm *StateMachine) (v *Validator, pool uint64) {
	v = &Validator{Address: zzAddr(0), PublicKey: zzAddr(4), StakedAmount: zzN64("stake"), Committees: zzRewardCommittees, Output: zzAddr(1), Compound: zzBool("compound")}
	if zzBool("unstaking") {
		v.UnstakingHeight = 50
	}
	zzAssume(v.StakedAmount >= 1 && v.StakedAmount < 1<<62)
	supply := &Supply{}
	if sm.SetValidators([]*Validator{v}, supply) != nil {
		panic("validators")
	}
	sum := supply.Total
	for i := 1; i <= 2; i++ {
		a := zzN64("bal")
		zzAssume(sum+a >= sum)
		sum += a
		if sm.SetAccount(&Account{Address: zzAddr(i), Amount: a}) != nil {
			panic("account")
		}
	}
	pool = zzN64("rewardPool")
	dao := zzN64("daoPool")
	zzAssume(sum+pool >= sum && sum+pool+dao >= sum+pool)
	sum += pool + dao
	if sm.SetPool(&Pool{Id: 1, Amount: pool}) != nil || sm.SetPool(&Pool{Id: lib.DAOPoolID, Amount: dao}) != nil {
		panic("pools")
	}
	supply.Total = sum
	if sm.SetSupply(supply) != nil {
		panic("supply")
	}
	sm.ResetCaches()
	return
}

//zz:harness mode=int unwind=60 maxpaths=60000 timebudget=1200 param.maxsamples@thorough=2
//zz:reach C04.rewards.done C04.rewards.paid
func ZZ_C04_distribute_committee_rewards() {
	sm, _ := zzFSM(10)
	zzRewardWorld(sm)
	sup0, _ := sm.GetSupply()
	samples := uint64(zzConcrete(zzInt("samples"), 1, zzParam("maxsamples", 1)))
	p1, p2 := zzN64("percent1"), zzN64("percent2")
	// side invariant of CommitteeData: the percents of a committee add up to <= 100 per sample
	zzAssume(p1 <= 100*samples && p2 <= 100*samples-p1)
	recipient2 := zzAddr(0) // the validator
	if zzBool("secondIsAccount") {
		recipient2 = zzAddr(2)
	}
	data := &lib.CommitteesData{List: []*lib.CommitteeData{{ChainId: 1, NumberOfSamples: samples, LastRootHeightUpdated: 3, LastChainHeightUpdated: 4,
		PaymentPercents: []*lib.PaymentPercents{{Address: zzAddr(2), Percent: p1, ChainId: 1}, {Address: recipient2, Percent: p2, ChainId: 1}}}}}
	if sm.SetCommitteesData(data) != nil {
		panic("committee data")
	}
	err := sm.DistributeCommitteeRewards()
	zzAssert("C04.rewards.returns-nil", err == nil)
	if err != nil {
		return
	}
	sm.ResetCaches()
	sum, ok := zzSumWorld(sm)
	sup, _ := sm.GetSupply()
	zzAssert("C04.rewards.no-component-wraps", ok)
	zzAssert("C04.rewards.total-equals-sum", sup.Total == sum)
	zzAssert("C04.rewards.total-never-grows", sup.Total <= sup0.Total)
	bal, _ := sm.GetPoolBalance(1)
	zzAssert("C04.rewards.pool-emptied", bal == 0)
	if sup.Total < sup0.Total || p1+p2 > 0 {
		zzReach("C04.rewards.paid")
	}
	zzReach("C04.rewards.done")
}

//zz:harness mode=int unwind=60 maxpaths=60000 timebudget=1200
//zz:reach C04.mint.done C04.mint.minted
func ZZ_C04_fund_committee_reward_pools() {
	h := uint64(10 + 120*zzConcrete(zzInt("halvenings"), 0, 2)) // height 10, 130 or 250: 0, 1 or 2 halvenings
	sm, _ := zzFSM(h)
	// 1, 2 or 3 subsidized committees: the per-committee amount is a truncated division, whatever is
	// not handed to a pool must not be booked either
	zzRewardCommittees = [][]uint64{{1}, {1, 2}, {1, 2, 3}}[zzConcrete(zzInt("subsidizedCommittees"), 0, 2)]
	zzRewardWorld(sm)
	sm.Config.BlocksPerHalvening = 100
	sm.Config.InitialTokensPerBlock = zzN64("tokensPerBlock")
	zzAssume(sm.Config.InitialTokensPerBlock < 1<<50)
	gov, _ := sm.GetParamsGov()
	gov.DaoRewardPercentage = zzN64("daoPercent")
	zzAssume(gov.DaoRewardPercentage <= 100)
	if sm.SetParamsGov(gov) != nil {
		panic("gov")
	}
	sup0, _ := sm.GetSupply()
	zzAssume(sup0.Total < 1<<63) // stated bound: AddToTotalSupply / PoolAdd are unguarded within one block reward of 2^64
	blockMint := sm.Config.InitialTokensPerBlock
	if h >= 100 {
		blockMint = blockMint / 2
	}
	if h >= 200 {
		blockMint = blockMint / 2
	}
	err := sm.FundCommitteeRewardPools()
	zzAssert("C04.mint.returns-nil", err == nil)
	sm.ResetCaches()
	sum, ok := zzSumWorld(sm)
	sup, _ := sm.GetSupply()
	zzAssert("C04.mint.no-component-wraps", ok)
	zzAssert("C04.mint.total-equals-sum", sup.Total == sum)
	zzAssert("C04.mint.creates-at-most-the-block-reward", sup.Total >= sup0.Total && sup.Total-sup0.Total <= blockMint)
	if sup.Total > sup0.Total {
		zzReach("C04.mint.minted")
	}
	zzReach("C04.mint.done")
}

var _ = crypto.NewAddress

// DAO grant: HandleMessageDAOTransfer moves Amount from the DAO pool to an account, optionally
// minting it into the pool first. Conservation: without Mint the total is unchanged, with Mint it
// grows by exactly Amount; total = sum afterwards; a rejected proposal (outside its height window,
// or the node rejects all proposals) moves nothing; a failed transfer may not have wrapped anything.
//
//zz:harness mode=int unwind=60 maxpaths=60000 timebudget=1200
//zz:reach C04.dao.ok C04.dao.rejected
func ZZ_C04_dao_transfer() {
	sm, _ := zzFSM(10)
	zzRewardWorld(sm)
	sup0, _ := sm.GetSupply()
	zzAssume(sup0.Total < 1<<63)
	if zzBool("nodeRejectsAll") {
		sm.proposeVoteConfig = RejectAllProposals
	}
	msg := &MessageDAOTransfer{Address: zzAddr(2), Amount: zzN64("amount"), StartHeight: zzU64("start"), EndHeight: zzU64("end"), Mint: zzBool("mint")}
	zzAssume(msg.Amount < 1<<62)
	before := zzBalances(sm)
	err := sm.HandleMessageDAOTransfer(msg)
	sm.ResetCaches()
	sum, ok := zzSumWorld(sm)
	sup, _ := sm.GetSupply()
	zzAssert("C04.dao.no-component-wraps", ok)
	if err != nil {
		zzReach("C04.dao.rejected")
		return
	}
	zzReach("C04.dao.ok")
	zzAssert("C04.dao.inside-the-proposal-window", msg.StartHeight <= 10 && 10 <= msg.EndHeight && sm.proposeVoteConfig != RejectAllProposals)
	zzAssert("C04.dao.total-equals-sum", sup.Total == sum)
	if msg.Mint {
		zzAssert("C04.dao.mint-creates-exactly-the-grant", sup.Total == sup0.Total+msg.Amount)
	} else {
		zzAssert("C04.dao.plain-grant-conserves-the-total", sup.Total == sup0.Total)
	}
	after := zzBalances(sm)
	zzAssert("C04.dao.grantee-receives-exactly-the-amount", after[2] == before[2]+msg.Amount && after[1] == before[1])
}
