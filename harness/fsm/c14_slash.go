package fsm

import (
	"bytes"

	"github.com/canopy-network/canopy/lib"
	"github.com/canopy-network/canopy/lib/crypto"
)

// C14 (state-machine side): a given (validator, height) double sign is slashed at most once - across
// blocks and inside one slash list - and what one committee can burn in one block is capped.
//   F1  real HandleDoubleSigners over the indexer map: returns nil only if no (address, height) pair of
//       the list was indexed before AND no pair occurs twice in the list; after success every pair is
//       indexed (so the same list is rejected in any later block); on success the validator was slashed
//       exactly once per listed pair (visible in the SlashTracker under protocol v2)
//   F2  real SlashValidator x3 in one block with the real SlashTracker (protocol v2): the percentages
//       applied by one committee add up to at most MaxSlashPerCommittee, the stake never increases and
//       each burn is floor-exactly the applied percentage (so the block loss is bounded by the cap); once the cap is
//       reached the validator is removed from that committee only

//zz:stub github.com/canopy-network/canopy/lib/crypto.NewPublicKeyFromBytes harness zzNewPub

// zzProtocol: protocol v1 or v2 (v2 = committee-scoped slashing with the per-block cap).
func zzProtocol(sm *StateMachine, v int) {
	c, err := sm.GetParamsCons()
	if err != nil {
		panic("cons params")
	}
	c.ProtocolVersion = "1/0"
	if v == 2 {
		c.ProtocolVersion = "2/0"
	}
	if sm.SetParamsCons(c) != nil {
		panic("set cons params")
	}
}

//zz:harness mode=int unwind=60 maxpaths=60000 timebudget=1200 replay=model
//zz:reach C14.F1.accepted C14.F1.rejected C14.F1.done
func ZZ_C14_F1_double_signer_slashed_once() {
	sm, st := zzFSM(30)
	zzProtocol(sm, zzConcrete(zzInt("protocol"), 1, 2))
	// two active committee members with symbolic stakes (status combinations are C12's subject)
	var vals []*Validator
	for i := 0; i < 2; i++ {
		v := &Validator{Address: zzAddr(i), PublicKey: zzAddr(i + 4), StakedAmount: zzN64("stake"), Committees: []uint64{1}, Output: zzAddr(i)}
		zzAssume(v.StakedAmount >= 1 && v.StakedAmount < 1<<56)
		vals = append(vals, v)
	}
	supply := &Supply{}
	if sm.SetValidators(vals, supply) != nil || sm.SetSupply(supply) != nil {
		panic("world")
	}
	sm.ResetCaches()
	params, _ := sm.GetParamsVal()
	// what earlier blocks already indexed: one arbitrary (validator, height) pair, or nothing
	type pair struct {
		who int
		h   uint64
	}
	var old []pair
	if zzBool("earlier") {
		p := pair{zzConcrete(zzInt("earlier.who"), 0, 1), zzU64("earlier.h")}
		old = append(old, p)
		_ = st.IndexDoubleSigner(zzAddr(p.who), p.h)
	}
	// the slash list: 1..2 entries, each naming validator 0 or 1 with 1..2 heights (all symbolic)
	var list []*lib.DoubleSigner
	var req []pair
	ne := zzConcrete(zzInt("entries"), 1, 2)
	for i := 0; i < ne; i++ {
		who := zzConcrete(zzInt("who"), 0, 1)
		nh := zzConcrete(zzInt("heights"), 1, 2)
		ds := &lib.DoubleSigner{Id: zzAddr(who)}
		for j := 0; j < nh; j++ {
			h := zzU64("h")
			ds.Heights = append(ds.Heights, h)
			req = append(req, pair{who, h})
		}
		list = append(list, ds)
	}
	clean := true
	for i, a := range req {
		for _, o := range old {
			clean = zzAnd(clean, zzNot(zzAnd(a.who == o.who, a.h == o.h)))
		}
		for _, b := range req[:i] {
			clean = zzAnd(clean, zzNot(zzAnd(a.who == b.who, a.h == b.h)))
		}
	}
	stake0 := []uint64{vals[0].StakedAmount, vals[1].StakedAmount}
	err := sm.HandleDoubleSigners(1, params, list)
	if err != nil {
		zzReach("C14.F1.rejected")
		zzReach("C14.F1.done")
		return
	}
	zzReach("C14.F1.accepted")
	zzAssert("C14.F1.accepted-list-has-no-repeated-or-known-pair", clean)
	for _, a := range req {
		ok, _ := st.IsValidDoubleSigner(zzAddr(a.who), a.h)
		zzAssert("C14.F1.accepted-pair-is-indexed", !ok)
	}
	for who := 0; who < 2; who++ {
		v, e := sm.GetValidator(crypto.NewAddress(zzAddr(who)))
		if e == nil {
			zzAssert("C14.F1.stake-never-increases", v.StakedAmount <= stake0[who])
		}
	}
	// replaying the same list in a later block is rejected
	sm.slashTracker = NewSlashTracker()
	zzAssert("C14.F1.same-list-rejected-later", sm.HandleDoubleSigners(1, params, list) != nil)
	zzReach("C14.F1.done")
}

//zz:harness mode=int unwind=60 maxpaths=60000 timebudget=1200 replay=model
//zz:reach C14.F2.done C14.F2.capped
func ZZ_C14_F2_slash_cap_per_committee_per_block() {
	sm, _ := zzFSM(30)
	zzProtocol(sm, 2)
	v0 := &Validator{Address: zzAddr(0), PublicKey: zzAddr(4), StakedAmount: zzN64("stake"), Committees: []uint64{1, 2}, Output: zzAddr(0)}
	zzAssume(v0.StakedAmount >= 1 && v0.StakedAmount < 1<<56)
	supply := &Supply{}
	if sm.SetValidators([]*Validator{v0}, supply) != nil || sm.SetSupply(supply) != nil {
		panic("world")
	}
	sm.ResetCaches()
	params, _ := sm.GetParamsVal()
	max := params.MaxSlashPerCommittee
	for i := 0; i < 3; i++ {
		v, e := sm.GetValidator(crypto.NewAddress(zzAddr(0)))
		if e != nil {
			break // slashed to zero and removed
		}
		pct := zzN64("percent")
		zzAssume(pct <= 100)
		prev := v.StakedAmount
		totalBefore := sm.slashTracker.GetTotalSlashPercent(zzAddr(0), 1)
		zzAssert("C14.F2.slash-returns-nil", sm.SlashValidator(v, 1, pct, params) == nil)
		total := sm.slashTracker.GetTotalSlashPercent(zzAddr(0), 1)
		zzAssert("C14.F2.percent-per-committee-per-block-capped", total <= max)
		if w, e2 := sm.GetValidator(crypto.NewAddress(zzAddr(0))); e2 == nil {
			zzAssert("C14.F2.stake-never-increases", w.StakedAmount <= prev)
			zzAssert("C14.F2.burn-matches-applied-percent", 100*(prev-w.StakedAmount) <= prev*(total-totalBefore)+99)
			if total >= max {
				zzReach("C14.F2.capped")
				zzAssert("C14.F2.ejected-from-slashing-committee-only", len(w.Committees) == 1 && w.Committees[0] == 2)
			} else {
				zzAssert("C14.F2.stays-in-committees-below-cap", len(w.Committees) == 2)
			}
		} else {
			zzAssert("C14.F2.removed-only-when-stake-rounds-to-zero", prev*(100-(total-totalBefore)) < 100)
		}
		// the other committee's budget is untouched
		zzAssert("C14.F2.other-committee-tracker-untouched", sm.slashTracker.GetTotalSlashPercent(zzAddr(0), 2) == 0)
	}
	zzReach("C14.F2.done")
}

var _ = bytes.Equal
