package fsm

import (
	"bytes"

	"github.com/canopy-network/canopy/lib"
	"google.golang.org/protobuf/types/known/anypb"
)

// C05 / A1 for Ethereum-wrapped transactions: StateMachine.VerifyRLPBytes binds the WHOLE canopy
// transaction - including the public key it claims - to what the signed RLP payload decodes to.
// The RLP decoder + secp256k1 key recovery (go-ethereum) are out of the engine's reach and are
// replaced by an arbitrary result: whatever transaction `compare` the signed bytes decode to
// (its Signature.PublicKey is the key recovered from the Ethereum signature). Obligation: if
// VerifyRLPBytes accepts tx, then tx equals compare in every field, in particular the claimed
// public key is the recovered one - otherwise CheckSignature derives the signer address from a key
// that did not sign.

//zz:stub github.com/canopy-network/canopy/fsm.RLPToCanopyTransaction harness zzRLPDecode
//zz:stub github.com/canopy-network/canopy/fsm.RLPToCanopyTransactionV2 harness zzRLPDecode

var zzDecoded *lib.Transaction

func zzRLPDecode(raw []byte) (*lib.Transaction, lib.ErrorI) { return zzDecoded, nil }

func zzAnyTx(name string, sig []byte) *lib.Transaction {
	return &lib.Transaction{
		MessageType:   string(zzBytes(name+".type", 2)),
		Msg:           &anypb.Any{TypeUrl: "t", Value: zzBytes(name+".msg", 3)},
		Signature:     &lib.Signature{PublicKey: zzBytes(name+".pk", 3), Signature: sig},
		CreatedHeight: zzU64(name + ".created"), Time: zzU64(name + ".time"), Fee: zzU64(name + ".fee"),
		Memo:          RLPV2Indicator,
		NetworkId:     zzU64(name + ".net"), ChainId: zzU64(name + ".chain"), Nonce: zzU64(name + ".nonce"),
	}
}

//zz:harness unwind=60 replay=model
//zz:reach A1.rlp.accepted A1.rlp.rejected
func ZZ_C05_A1_rlp_wrapper_binds_claimed_key() {
	sm, _ := zzFSM(10)
	raw := zzBytes("rlp", 4)
	tx := zzAnyTx("tx", raw)
	zzDecoded = zzAnyTx("decoded", raw)
	if zzBool("legacyMemo") {
		tx.Memo, zzDecoded.Memo = RLPIndicator, RLPIndicator
	}
	err := sm.VerifyRLPBytes(tx)
	if err != nil {
		zzReach("A1.rlp.rejected")
		return
	}
	zzReach("A1.rlp.accepted")
	d := zzDecoded
	zzAssert("A1.rlp.claimed-key-is-recovered-key", bytes.Equal(tx.Signature.PublicKey, d.Signature.PublicKey))
	zzAssert("A1.rlp.payload", tx.MessageType == d.MessageType && bytes.Equal(tx.Msg.Value, d.Msg.Value))
	zzAssert("A1.rlp.envelope", tx.CreatedHeight == d.CreatedHeight && tx.Time == d.Time && tx.Fee == d.Fee &&
		tx.NetworkId == d.NetworkId && tx.ChainId == d.ChainId && tx.Nonce == d.Nonce)
}
