package fsm

import (
	"bytes"
	"context"

	"github.com/canopy-network/canopy/lib"
	"github.com/canopy-network/canopy/lib/crypto"
	"google.golang.org/protobuf/types/known/anypb"
)

// C05 / A1 for Ethereum-wrapped transactions: StateMachine.VerifyRLPBytes binds the WHOLE canopy
// transaction - including the public key it claims - to what the signed RLP payload decodes to.
// The RLP decoder + secp256k1 key recovery (go-ethereum) are out of the engine's reach and are
// replaced by an arbitrary result: whatever transaction `compare` the signed bytes decode to
// (its Signature.PublicKey is the key recovered from the Ethereum signature). Obligation: if
// VerifyRLPBytes accepts tx, then tx equals compare in every field, in particular the claimed
// public key is the recovered one - otherwise CheckSignature derives the signer address from a key
// that did not sign.

//zz:stub github.com/canopy-network/canopy/fsm.RLPToCanopyTransaction harness zzRLPDecode
//zz:stub github.com/canopy-network/canopy/fsm.RLPToCanopyTransactionV2 harness zzRLPDecode

var zzDecoded *lib.Transaction

func zzRLPDecode(raw []byte) (*lib.Transaction, lib.ErrorI) { return zzDecoded, nil }

func zzAnyTx(name string, sig []byte) *lib.Transaction {
	return &lib.Transaction{
		MessageType:   string(zzBytes(name+".type", 2)),
		Msg:           &anypb.Any{TypeUrl: "t", Value: zzBytes(name+".msg", 3)},
		Signature:     &lib.Signature{PublicKey: zzBytes(name+".pk", 3), Signature: sig},
		CreatedHeight: zzU64(name + ".created"), Time: zzU64(name + ".time"), Fee: zzU64(name + ".fee"),
		Memo:          RLPV2Indicator,
		NetworkId:     zzU64(name + ".net"), ChainId: zzU64(name + ".chain"), Nonce: zzU64(name + ".nonce"),
	}
}

//zz:harness unwind=60 replay=model
//zz:reach A1.rlp.accepted A1.rlp.rejected
func ZZ_C05_A1_rlp_wrapper_binds_claimed_key() {
	sm, _ := zzFSM(10)
	raw := zzBytes("rlp", 4)
	tx := zzAnyTx("tx", raw)
	zzDecoded = zzAnyTx("decoded", raw)
	if zzBool("legacyMemo") {
		tx.Memo, zzDecoded.Memo = RLPIndicator, RLPIndicator
	}
	err := sm.VerifyRLPBytes(tx)
	if err != nil {
		zzReach("A1.rlp.rejected")
		return
	}
	zzReach("A1.rlp.accepted")
	d := zzDecoded
	zzAssert("A1.rlp.claimed-key-is-recovered-key", bytes.Equal(tx.Signature.PublicKey, d.Signature.PublicKey))
	zzAssert("A1.rlp.payload", tx.MessageType == d.MessageType && bytes.Equal(tx.Msg.Value, d.Msg.Value))
	zzAssert("A1.rlp.envelope", tx.CreatedHeight == d.CreatedHeight && tx.Time == d.Time && tx.Fee == d.Fee &&
		tx.NetworkId == d.NetworkId && tx.ChainId == d.ChainId && tx.Nonce == d.Nonce)
}

// C05 / A1 for ordinary transactions: the signer gate StateMachine.CheckSignature under an ideal
// signature functionality. The owner of the claimed key signed at most ONE message: either exactly
// this transaction's sign bytes, or the sign bytes of some other transaction, or nothing. Whatever
// the fields, the memo ("", "RLP", "RLP.V2"), the signature bytes and the list of authorized signers:
//   accepted  =>  the key's owner signed exactly THIS transaction's content, the returned address is
//                 the claimed key's address, and that address is one of the authorized signers.
// With a batch verifier the same must hold for what is queued: exactly (key, sign bytes, signature).
func zzSignerGate(batch bool) {
	sm, _ := zzFSM(10)
	tx := zzAnyTx("tx", zzBytesUpTo("sig", 1))
	switch zzConcrete(zzInt("memo"), 0, 2) {
	case 0:
		tx.Memo = ""
	case 1:
		tx.Memo = RLPIndicator
	case 2:
		tx.Memo = RLPV2Indicator
	}
	other := zzAnyTx("other", []byte{9})
	other.Memo = tx.Memo
	mine, _ := tx.GetSignBytes()
	theirs, _ := other.GetSignBytes()
	signedThis, signedOther := zzBool("ownerSignedThis"), zzBool("ownerSignedOther")
	zzVerifyHook = func(pk, msg, sig []byte) bool {
		good := len(sig) == 1 && sig[0] == 9 && bytes.Equal(pk, tx.Signature.PublicKey)
		return zzAnd(good, zzOr(zzAnd(signedThis, bytes.Equal(msg, mine)), zzAnd(signedOther, bytes.Equal(msg, theirs))))
	}
	var auth [][]byte
	na := zzConcrete(zzInt("authorized"), 0, 2)
	for i := 0; i < na; i++ {
		auth = append(auth, zzBytes("auth", 3))
	}
	zzBatchQueue = nil
	var bv *crypto.BatchVerifier
	if batch {
		bv = &crypto.BatchVerifier{}
	}
	addr, err := sm.CheckSignature(tx, auth, bv)
	if err != nil {
		zzReach("A1.gate.rejected")
		return
	}
	zzReach("A1.gate.accepted")
	if batch {
		zzAssert("A1.gate.exactly-this-triple-is-queued", len(zzBatchQueue) == 1 && bytes.Equal(zzBatchQueue[0].pk, tx.Signature.PublicKey) &&
			bytes.Equal(zzBatchQueue[0].msg, mine) && bytes.Equal(zzBatchQueue[0].sig, tx.Signature.Signature))
	} else {
		zzAssert("A1.gate.owner-signed-exactly-this-content", zzOr(signedThis, zzAnd(signedOther, bytes.Equal(mine, theirs))))
	}
	zzAssert("A1.gate.address-is-the-claimed-keys", addr != nil && bytes.Equal(addr.Bytes(), tx.Signature.PublicKey))
	in := false
	for _, a := range auth {
		in = zzOr(in, bytes.Equal(a, tx.Signature.PublicKey))
	}
	zzAssert("A1.gate.signer-is-authorized", in)
}

//zz:harness unwind=60 replay=model maxpaths=60000 timebudget=900
//zz:reach A1.gate.accepted A1.gate.rejected
func ZZ_C05_A1_signer_gate() { zzSignerGate(false) }

//zz:harness unwind=60 replay=model maxpaths=60000 timebudget=900
//zz:reach A1.gate.accepted A1.gate.rejected
func ZZ_C05_A1_signer_gate_batch() { zzSignerGate(true) }

// C05 / A2 for payments: a send transaction is executed only if it is signed by the account it
// debits, and executing it never lowers the balance of any account other than the signer's.
//
//zz:harness mode=int unwind=60 maxpaths=60000 timebudget=1200 replay=model
//zz:reach A2.send.included A2.send.not-included
func ZZ_C05_A2_send_debits_only_the_signer() {
	w := zzWorldValues()
	sm, _ := zzBuildWorld(w)
	spec := zzTxSpec{from: zzConcrete(zzInt("from"), 0, 2), to: zzConcrete(zzInt("to"), 0, 2), signer: zzConcrete(zzInt("signer"), 0, 2),
		amount: zzN64("amount"), fee: zzN64("fee"), created: 10, time: 1, net: 1, chain: 1}
	before := zzBalances(sm)
	r := &lib.ApplyBlockResults{}
	if sm.ApplyTransactions(context.Background(), [][]byte{zzSendTxBytes(spec)}, r, false) != nil {
		return
	}
	after := zzBalances(sm)
	if len(r.Results) == 1 {
		zzReach("A2.send.included")
		zzAssert("A2.send.executed-only-if-signed-by-the-debited-account", spec.signer == spec.from)
	} else {
		zzReach("A2.send.not-included")
	}
	for i := 0; i < 3; i++ {
		if i != spec.signer {
			zzAssert("A2.send.nobody-else-is-debited", after[i] >= before[i])
		}
	}
}

// C05 / A2 for the other money-moving messages: the real GetAuthorizedSignersFor decides who may
// sign a message, the real handler decides whose funds move. For an arbitrary message of each kind
// over the escrow world (three accounts, one open sell order owned by account 0, pools): every
// account whose balance DEcreases is one of the message's authorized signers, and messages that
// touch an existing order (edit / delete) are authorized for that order's seller only - so nobody is
// debited, and nobody's order is changed, by a transaction their keys did not sign.
func zzAuthorizedIdx(sm *StateMachine, msg lib.MessageI) (idx [3]bool, ok bool) {
	who, err := sm.GetAuthorizedSignersFor(msg)
	if err != nil {
		return idx, false
	}
	for _, w := range who {
		for i := 0; i < 3; i++ {
			if bytes.Equal(w, zzAddr(i)) {
				idx[i] = true
			}
		}
	}
	return idx, true
}

//zz:harness mode=int unwind=60 maxpaths=60000 timebudget=1200 replay=model
//zz:reach A2.handlers.executed
func ZZ_C05_A2_handlers_debit_only_authorized() {
	sm, _ := zzFSM(10)
	zzEscrowWorld(sm)
	a, b := zzConcrete(zzInt("a"), 0, 2), zzConcrete(zzInt("b"), 0, 2)
	id2 := append([]byte{}, zzOrderId...)
	id2[0] = 0x01
	var msg lib.MessageI
	var run func() lib.ErrorI
	touchesOrder := false
	switch zzConcrete(zzInt("kind"), 0, 4) {
	case 0:
		m := &MessageSubsidy{Address: zzAddr(a), ChainId: 1, Amount: zzN64("amount"), Opcode: []byte{1}}
		msg, run = m, func() lib.ErrorI { return sm.HandleMessageSubsidy(m) }
	case 1:
		m := &MessageCreateOrder{ChainId: 1, AmountForSale: zzN64("amount"), RequestedAmount: zzN64("req"),
			SellerReceiveAddress: zzAddr(b), SellersSendAddress: zzAddr(a), OrderId: id2}
		msg, run = m, func() lib.ErrorI { return sm.HandleMessageCreateOrder(m) }
	case 2:
		m := &MessageEditOrder{OrderId: zzOrderId, ChainId: 1, AmountForSale: zzN64("amount"), RequestedAmount: zzN64("req"), SellerReceiveAddress: zzAddr(b)}
		msg, run, touchesOrder = m, func() lib.ErrorI { return sm.HandleMessageEditOrder(m) }, true
	case 3:
		m := &MessageDeleteOrder{OrderId: zzOrderId, ChainId: 1}
		msg, run, touchesOrder = m, func() lib.ErrorI { return sm.HandleMessageDeleteOrder(m) }, true
	case 4:
		m := &MessageSend{FromAddress: zzAddr(a), ToAddress: zzAddr(b), Amount: zzN64("amount")}
		msg, run = m, func() lib.ErrorI { return sm.HandleMessageSend(m) }
	}
	auth, ok := zzAuthorizedIdx(sm, msg)
	if !ok {
		return
	}
	if touchesOrder {
		zzAssert("A2.handlers.order-messages-are-for-the-seller-only", auth[0] && !auth[1] && !auth[2])
	}
	before := zzBalances(sm)
	if run() != nil {
		return
	}
	zzReach("A2.handlers.executed")
	after := zzBalances(sm)
	for i := 0; i < 3; i++ {
		if !auth[i] {
			zzAssert("A2.handlers.only-authorized-signers-are-debited", after[i] >= before[i])
		}
	}
}

// C05 / A2 for the DEX messages: a limit order and a liquidity deposit escrow the sender's coins, a
// liquidity withdrawal queues a pay-out of pool points. Over the DEX world (three accounts, a pending
// batch, a liquidity pool with accounts 0 and 1 as providers) and an arbitrary message of each kind: the
// only account the handler debits is one of the message's authorized signers, the authorized signers
// are exactly the message's own Address, and the entry the handler queues in the batch (what the
// later settlement refunds, pays or burns points for) names an authorized signer - so nobody's
// coins or liquidity points are committed by a transaction their key did not sign.
//
//zz:harness mode=int unwind=60 maxpaths=60000 timebudget=1200 replay=model
//zz:reach A2.dex.executed A2.dex.rejected
func ZZ_C05_A2_dex_messages_commit_only_the_signers_funds() {
	sm, _ := zzFSM(10)
	zzDexWorld(sm)
	// two liquidity providers (accounts 0 and 1), so a withdrawal has somebody else's points to take
	lp, e := sm.GetPool(2 + LiquidityPoolAddend)
	if e != nil {
		panic("pool")
	}
	lp.Points = []*lib.PoolPoints{{Address: zzAddr(0), Points: 60}, {Address: zzAddr(1), Points: 40}}
	if sm.SetPool(lp) != nil {
		panic("pool")
	}
	sm.ResetCaches()
	a := zzConcrete(zzInt("a"), 0, 2)
	var msg lib.MessageI
	var run func() lib.ErrorI
	kind := zzConcrete(zzInt("kind"), 0, 2)
	switch kind {
	case 0:
		m := &MessageDexLimitOrder{ChainId: 2, AmountForSale: zzN64("amount"), RequestedAmount: zzN64("req"), Address: zzAddr(a), OrderId: zzOrderId}
		msg, run = m, func() lib.ErrorI { return sm.HandleMessageDexLimitOrder(m) }
	case 1:
		m := &MessageDexLiquidityDeposit{ChainId: 2, Amount: zzN64("amount"), Address: zzAddr(a), OrderId: zzOrderId}
		msg, run = m, func() lib.ErrorI { return sm.HandleMessageDexLiquidityDeposit(m) }
	case 2:
		m := &MessageDexLiquidityWithdraw{ChainId: 2, Percent: zzN64("percent"), Address: zzAddr(a), OrderId: zzOrderId}
		msg, run = m, func() lib.ErrorI { return sm.HandleMessageDexLiquidityWithdraw(m) }
	}
	auth, ok := zzAuthorizedIdx(sm, msg)
	if !ok {
		return
	}
	for i := 0; i < 3; i++ {
		zzAssert("A2.dex.authorized-is-exactly-the-message-address", auth[i] == (i == a))
	}
	before := zzBalances(sm)
	if run() != nil {
		zzReach("A2.dex.rejected")
		return
	}
	zzReach("A2.dex.executed")
	after := zzBalances(sm)
	for i := 0; i < 3; i++ {
		if !auth[i] {
			zzAssert("A2.dex.only-authorized-signers-are-debited", after[i] >= before[i])
		}
	}
	b, err := sm.GetDexBatch(2, false)
	zzAssert("A2.dex.batch-readable", err == nil)
	var queued []byte
	switch kind {
	case 0:
		zzAssert("A2.dex.order-queued", len(b.Orders) == 2)
		queued = b.Orders[1].Address
	case 1:
		zzAssert("A2.dex.deposit-queued", len(b.Deposits) == 2)
		queued = b.Deposits[1].Address
	case 2:
		zzAssert("A2.dex.withdraw-queued", len(b.Withdrawals) == 1)
		queued = b.Withdrawals[0].Address
	}
	named := false
	for i := 0; i < 3; i++ {
		if auth[i] && bytes.Equal(queued, zzAddr(i)) {
			named = true
		}
	}
	zzAssert("A2.dex.queued-entry-names-an-authorized-signer", named)
	// the entries that were already pending keep their owners
	zzAssert("A2.dex.pending-entries-keep-their-owners", bytes.Equal(b.Orders[0].Address, zzAddr(0)) && bytes.Equal(b.Deposits[0].Address, zzAddr(1)))
}

// C05 / A2 for staked funds: the address a validator's stake and rewards are paid out to (Output)
// belongs to the owner of the funds; for a non-custodial validator the operator key may edit the
// validator but must not redirect its funds. Real HandleMessageEditStake on a non-custodial
// validator (operator = account 0, owner/output = account 1) with any signer and any new output:
//   the output address changes  =>  the transaction was signed by the current output (owner) key.
//
//zz:harness mode=int unwind=60 maxpaths=60000 timebudget=1200
//zz:reach A2.editstake.ok A2.editstake.output-changed
func ZZ_C05_A2_edit_stake_cannot_redirect_funds() {
	sm, _ := zzFSM(5)
	zzProtocol(sm, zzConcrete(zzInt("protocol"), 1, 2))
	v := &Validator{Address: zzAddr(0), PublicKey: zzAddr(4), StakedAmount: zzN64("stake"), Committees: []uint64{1}, Output: zzAddr(1), Delegate: zzBool("delegate")}
	zzAssume(v.StakedAmount >= 1 && v.StakedAmount < 1<<60)
	supply := &Supply{}
	if sm.SetValidators([]*Validator{v}, supply) != nil {
		panic("validators")
	}
	for i := 0; i < 3; i++ {
		bal := zzN64("bal")
		zzAssume(bal < 1<<60)
		supply.Total += bal
		if sm.SetAccount(&Account{Address: zzAddr(i), Amount: bal}) != nil {
			panic("account")
		}
	}
	if sm.SetSupply(supply) != nil {
		panic("supply")
	}
	sm.ResetCaches()
	signer, newOut := zzConcrete(zzInt("signer"), 0, 2), zzConcrete(zzInt("newOutput"), 0, 2)
	msg := &MessageEditStake{Address: zzAddr(0), Amount: zzN64("newAmount"), Committees: []uint64{1}, OutputAddress: zzAddr(newOut), Signer: zzAddr(signer), Compound: zzBool("compound")}
	if !v.Delegate {
		msg.NetAddress = "tcp://x"
	}
	if sm.HandleMessageEditStake(msg) != nil {
		return
	}
	zzReach("A2.editstake.ok")
	w, err := sm.GetValidator(crypto.NewAddress(zzAddr(0)))
	if err != nil {
		return
	}
	if !bytes.Equal(w.Output, zzAddr(1)) {
		zzReach("A2.editstake.output-changed")
		zzAssert("A2.editstake.only-the-owner-key-redirects-the-funds", signer == 1)
	}
}

// C05 / A1 at block level: the signatures of a block are verified in one batch and the verdicts are
// mapped back to transactions. A block of three send transactions, each with an arbitrary claimed
// sender, an arbitrary signing key and a signature that is genuine or not: a transaction is executed
// only if ITS OWN signature is genuine and ITS signer is the debited account - whatever the
// neighbouring transactions look like (a transaction that fails for another reason after its
// signature was queued must not shift the verdicts of the ones behind it).
//
//zz:harness mode=int unwind=80 maxpaths=200000 timebudget=2400 replay=model param.txs@quick=3 param.txs@thorough=4
//zz:reach A1.block.executed A1.block.rejected-for-signature
func ZZ_C05_A1_block_signature_verdicts_stay_with_their_transaction() {
	// balances are fixed and ample: the quantifier here is over signatures and signers, not money
	var w zzWorldVals
	for i := range w.bal {
		w.bal[i] = 1000000000
	}
	sm, _ := zzBuildWorld(w)
	n := zzParam("txs", 3)
	var specs []zzTxSpec
	var txs [][]byte
	for i := 0; i < n; i++ {
		sp := zzTxSpec{from: zzConcrete(zzInt("from"), 0, 1), to: 2, signer: zzConcrete(zzInt("signer"), 0, 1), badSig: zzBool("badSig"),
			amount: uint64(i + 1), fee: 10000, created: 10, time: uint64(i + 1), net: 1, chain: 1}
		specs = append(specs, sp)
		txs = append(txs, zzSendTxBytes(sp))
	}
	r := &lib.ApplyBlockResults{}
	if sm.ApplyTransactions(context.Background(), txs, r, false) != nil {
		return
	}
	for i, sp := range specs {
		executed := false
		for _, t := range r.Txs {
			if bytes.Equal(t, txs[i]) {
				executed = true
			}
		}
		if executed {
			zzReach("A1.block.executed")
			zzAssert("A1.block.executed-transaction-carries-a-genuine-signature", !sp.badSig)
			zzAssert("A1.block.executed-transaction-is-signed-by-the-debited-account", sp.signer == sp.from)
		} else if sp.badSig {
			zzReach("A1.block.rejected-for-signature")
		}
	}
}

// C05 / A2 for validator management: who may sign for a validator, and whose key the handlers see.
//   - the real GetAuthorizedSignersFor for unstake / pause / unpause / edit-stake names exactly the
//     validator's operator address and its output address (one address when they coincide) and
//     nobody else; a stake message is authorized for the new validator's address and its output
//   - the real PopulateSpecialMessageFields writes the VERIFIED signer into MessageStake.Signer /
//     MessageEditStake.Signer - the account the handlers debit - whatever the message claimed
//
//zz:harness mode=int unwind=60 maxpaths=40000 timebudget=900 replay=model
//zz:reach A2.val.done
func ZZ_C05_A2_validator_messages_authorized_for_operator_and_owner_only() {
	sm, _ := zzFSM(5)
	out := zzConcrete(zzInt("output"), 0, 1) // custodial (output = operator) or not
	v := &Validator{Address: zzAddr(0), PublicKey: zzAddr(4), StakedAmount: 10, Committees: []uint64{1}, Output: zzAddr(out)}
	supply := &Supply{}
	if sm.SetValidators([]*Validator{v}, supply) != nil || sm.SetSupply(supply) != nil {
		panic("world")
	}
	sm.ResetCaches()
	var msg lib.MessageI
	switch zzConcrete(zzInt("kind"), 0, 3) {
	case 0:
		msg = &MessageUnstake{Address: zzAddr(0)}
	case 1:
		msg = &MessagePause{Address: zzAddr(0)}
	case 2:
		msg = &MessageUnpause{Address: zzAddr(0)}
	case 3:
		msg = &MessageEditStake{Address: zzAddr(0), Signer: zzAddr(2)}
	}
	who, err := sm.GetAuthorizedSignersFor(msg)
	zzAssert("A2.val.signers-resolved", err == nil)
	hasOp, hasOut := false, false
	for _, w := range who {
		isOp, isOut := bytes.Equal(w, zzAddr(0)), bytes.Equal(w, zzAddr(out))
		zzAssert("A2.val.only-operator-or-owner-may-sign", isOp || isOut)
		hasOp, hasOut = hasOp || isOp, hasOut || isOut
	}
	zzAssert("A2.val.operator-and-owner-may-sign", hasOp && hasOut)
	// the Signer field the handlers debit is the verified signer, not what the message claimed
	verified := crypto.NewAddress(zzAddr(1))
	stake := &MessageStake{PublicKey: zzAddr(5), Signer: zzAddr(2), OutputAddress: zzAddr(2)}
	edit := &MessageEditStake{Address: zzAddr(0), Signer: zzAddr(2)}
	tx := &lib.Transaction{MessageType: MessageStakeName}
	sm.PopulateSpecialMessageFields(tx, verified, stake)
	sm.PopulateSpecialMessageFields(tx, verified, edit)
	zzAssert("A2.val.stake-signer-is-the-verified-signer", bytes.Equal(stake.Signer, zzAddr(1)))
	zzAssert("A2.val.edit-stake-signer-is-the-verified-signer", bytes.Equal(edit.Signer, zzAddr(1)))
	// a stake message: the new validator's own address (derived from its key) and the output address
	whoS, errS := sm.GetAuthorizedSignersFor(stake)
	zzAssert("A2.val.stake-signers-resolved", errS == nil && len(whoS) == 2 && bytes.Equal(whoS[0], zzAddr(5)) && bytes.Equal(whoS[1], zzAddr(2)))
	zzReach("A2.val.done")
}

// C05 / A2 for MessageStake: both the new validator's own address (derived from PublicKey) and the
// output address may sign a stake - two free message fields - so the handler must debit the VERIFIED
// signer (what PopulateSpecialMessageFields wrote), never an account merely named in the message.
// Three funded accounts; operator key, output address and signer each range over them; the signer
// is one of the authorized addresses (what the A1 gate guarantees).
//
//zz:harness mode=int unwind=60 maxpaths=40000 timebudget=900 replay=model
//zz:reach A2.stake.executed A2.stake.rejected
func ZZ_C05_A2_stake_debits_only_the_verified_signer() {
	zzRealBLS = true
	sm, _ := zzFSM(5)
	zzWorld3(sm)
	op, outp, sg := zzConcrete(zzInt("operator"), 0, 2), zzConcrete(zzInt("output"), 0, 2), zzConcrete(zzInt("signer"), 0, 2)
	msg := &MessageStake{PublicKey: zzAddr(op), Amount: zzN64("amount"), Committees: []uint64{1}, OutputAddress: zzAddr(outp), Delegate: zzBool("delegate"), Signer: zzAddr(7)}
	if !msg.Delegate {
		msg.NetAddress = "tcp://x"
	}
	auth, ok := zzAuthorizedIdx(sm, msg)
	zzAssert("A2.stake.signers-resolved", ok)
	if !ok {
		return
	}
	for i := 0; i < 3; i++ {
		zzAssert("A2.stake.exactly-operator-and-output-may-sign", auth[i] == (i == op || i == outp))
	}
	if !auth[sg] {
		return // refused by the signature gate (A1)
	}
	sm.PopulateSpecialMessageFields(&lib.Transaction{MessageType: MessageStakeName}, crypto.NewAddress(zzAddr(sg)), msg)
	before := zzBalances(sm)
	if sm.HandleMessageStake(msg) != nil {
		zzReach("A2.stake.rejected")
		return
	}
	zzReach("A2.stake.executed")
	after := zzBalances(sm)
	for i := 0; i < 3; i++ {
		if i == sg {
			zzAssert("A2.stake.signer-pays-exactly-the-stake", after[i] <= before[i] && before[i]-after[i] == msg.Amount)
		} else {
			zzAssert("A2.stake.account-that-did-not-sign-is-untouched", after[i] == before[i])
		}
	}
}
