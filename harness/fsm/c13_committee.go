package fsm

import (
	"bytes"

	"github.com/canopy-network/canopy/lib"
)

// C13: committee derivation. The real StateMachine.getValidatorSet (filter through the real
// Validator.PassesFilter, stdlib slices.Collect / slices.SortFunc executed from their SSA, the cap,
// lib.NewValidatorSet) over `vals` validators written by the real genesis builder SetValidators,
// with symbolic 64-bit stakes (integer encoding), symbolic status and membership, symbolic cap.
//   (i)   every member is a validator that is staked for the chain, not paused, not unstaking and of
//         the requested kind (validator / delegate), and its voting power is its stake
//   (ii)  a qualified validator is left out only if the set is full (len = cap > 0) and every member
//         ranks at or above it in (stake, address)
//   (iii) members are strictly descending in (stake, address) - a total order, so every node
//         resolves ties identically
//   (iv)  TotalPower = sum of member stakes, MinimumMaj23 = floor(2T/3)+1 (> 2/3), NumValidators = len
//   (v)   no qualified validator <=> ErrNoValidators

//zz:stub github.com/canopy-network/canopy/lib/crypto.BytesToBLS12381Point noop
//zz:stub github.com/canopy-network/canopy/lib/crypto.NewMultiBLSFromPoints noop
//zz:stub github.com/canopy-network/canopy/lib/crypto.NewPublicKeyFromBytes noop

type zzC13Val struct {
	v        *Validator
	eligible bool
}

func zzC13World(sm *StateMachine, n int, chain uint64, delegate bool) []zzC13Val {
	var out []zzC13Val
	var vals []*Validator
	var sum uint64
	for i := 0; i < n; i++ {
		v := &Validator{Address: zzAddr(i), PublicKey: zzAddr(i + 4), StakedAmount: zzN64("stake"), Output: zzAddr(i)}
		zzAssume(v.StakedAmount >= 1 && v.StakedAmount < 1<<60)
		sum += v.StakedAmount
		paused, unstaking, member, isDelegate := false, false, true, delegate
		if zzParam("fullflags", 0) == 1 {
			paused, unstaking, member, isDelegate = zzBool("paused"), zzBool("unstaking"), zzBool("member"), zzBool("delegate")
		} else {
			switch zzConcrete(zzInt("defect"), 0, 5) {
			case 1:
				paused = true
			case 2:
				unstaking = true
			case 3:
				member = false
			case 4:
				isDelegate = !delegate
			case 5:
				paused, unstaking = true, true
			}
		}
		if paused {
			v.MaxPausedHeight = 20
		}
		if unstaking {
			v.UnstakingHeight = 10
		}
		v.Committees = []uint64{chain + 1}
		if member {
			v.Committees = []uint64{chain + 1, chain}
		}
		v.Delegate = isDelegate
		vals = append(vals, v)
		out = append(out, zzC13Val{v, !paused && !unstaking && member && isDelegate == delegate})
	}
	supply := &Supply{}
	if err := sm.SetValidators(vals, supply); err != nil {
		panic("SetValidators: " + err.Error())
	}
	if err := sm.SetSupply(supply); err != nil {
		panic("SetSupply")
	}
	sm.ResetCaches()
	return out
}

// rank: a ranks strictly above b in (stake, address)
func zzC13Above(a, b *Validator) bool {
	return a.StakedAmount > b.StakedAmount || (a.StakedAmount == b.StakedAmount && bytes.Compare(a.Address, b.Address) > 0)
}

//zz:harness mode=int unwind=80 maxpaths=400000 timebudget=3600 param.vals=3 param.vals@thorough=3 param.fullflags@thorough=1 param.othercapmax@quick=3 param.othercapmax@thorough=1
//zz:reach C13.S.done C13.S.capped C13.S.empty
func ZZ_C13_S_getValidatorSet() {
	n := zzParam("vals", 3)
	sm, _ := zzFSM(5)
	delegate := zzBool("delegateSet")
	world := zzC13World(sm, n, 1, delegate)
	p, err := sm.GetParamsVal()
	if err != nil {
		panic("params")
	}
	limit := uint64(zzConcrete(zzInt("cap"), 0, n))
	// the cap that does NOT apply is arbitrary too (quick: 0..n; thorough, where all flag combinations
	// are explored: 0 or 1): taking the wrong one must show
	other := uint64(zzConcrete(zzInt("otherCap"), 0, zzParam("othercapmax", n)))
	p.MaxCommitteeSize, p.MaximumDelegatesPerCommittee = other, other
	if delegate {
		p.MaximumDelegatesPerCommittee = limit
	} else {
		p.MaxCommitteeSize = limit
	}
	if err := sm.SetParamsVal(p); err != nil {
		panic("SetParams")
	}
	sm.ResetCaches()
	vs, e := sm.getValidatorSet(1, delegate)
	qualified := 0
	for _, w := range world {
		if w.eligible {
			qualified++
		}
	}
	if qualified == 0 {
		zzAssert("C13.S.no-qualified-validator-is-an-error", e != nil)
		zzReach("C13.S.empty")
		zzReach("C13.S.done")
		return
	}
	zzAssert("C13.S.qualified-set-builds", e == nil)
	if e != nil {
		return
	}
	members := vs.ValidatorSet.ValidatorSet
	want := qualified
	if limit > 0 && int(limit) < qualified {
		want = int(limit)
		zzReach("C13.S.capped")
	}
	zzAssert("C13.S.size-is-min-of-cap-and-qualified", len(members) == want)
	var total uint64
	var prev *Validator
	for _, m := range members {
		var src *zzC13Val
		for i := range world {
			if bytes.Equal(world[i].v.PublicKey, m.PublicKey) {
				src = &world[i]
			}
		}
		zzAssert("C13.S.member-is-a-known-validator", src != nil)
		if src == nil {
			return
		}
		zzAssert("C13.S.member-passes-filter", src.eligible)
		zzAssert("C13.S.voting-power-is-stake", m.VotingPower == src.v.StakedAmount)
		total += m.VotingPower
		if prev != nil {
			zzAssert("C13.S.members-strictly-descending", zzC13Above(prev, src.v))
		}
		prev = src.v
	}
	for i := range world {
		if !world[i].eligible {
			continue
		}
		in := false
		for _, m := range members {
			if bytes.Equal(world[i].v.PublicKey, m.PublicKey) {
				in = true
			}
		}
		if !in {
			zzAssert("C13.S.left-out-only-when-full", limit > 0 && len(members) == int(limit))
			zzAssert("C13.S.left-out-ranks-below-every-member", prev != nil && zzC13Above(prev, world[i].v))
		}
	}
	zzAssert("C13.S.total-power-is-sum", vs.TotalPower == total)
	zzAssert("C13.S.two-thirds-threshold", vs.MinimumMaj23 == 2*total/3+1)
	zzAssert("C13.S.count", vs.NumValidators == uint64(len(members)))
	zzReach("C13.S.done")
}

var _ = lib.JoinLenPrefix
