package fsm

import (
	"bytes"

	"github.com/canopy-network/canopy/lib"
	"github.com/canopy-network/canopy/lib/crypto"
	"github.com/cockroachdb/pebble/v2"
)

// ---------------------------------------------------------------------------------------------
// The "small world" the FSM harnesses run in (DESIGN §3/§4): the real fsm.StateMachine on top of a
// map-like store written in plain Go (so it is executed symbolically like everything else and
// runs natively in replays). Keys are the real fsm.KeyFor* outputs; values are whatever the FSM
// marshals (opaque boxes under the engine, protobuf bytes natively).
// ---------------------------------------------------------------------------------------------

type zzLogF struct{}

func (zzLogF) Debug(string)          {}
func (zzLogF) Info(string)           {}
func (zzLogF) Warn(string)           {}
func (zzLogF) Error(string)          {}
func (zzLogF) Fatal(string)          {}
func (zzLogF) Print(string)          {}
func (zzLogF) Debugf(string, ...any) {}
func (zzLogF) Infof(string, ...any)  {}
func (zzLogF) Warnf(string, ...any)  {}
func (zzLogF) Errorf(string, ...any) {}
func (zzLogF) Fatalf(string, ...any) {}
func (zzLogF) Printf(string, ...any) {}

type zzKV struct{ k, v []byte }

// zzStore: an unordered association list with copy-on-NewTxn semantics; iteration sorts on demand.
type zzStore struct {
	kv      []zzKV
	parent  *zzStore
	version uint64
	txs     []*lib.TxResult // "indexer": transactions by hash
	dsigs   []zzDS          // "indexer": double signers
	ops     []string        // trace of store-level operations (Reset/Discard/Flush ...)
}

type zzDS struct {
	addr   []byte
	height uint64
}

func (s *zzStore) find(k []byte) int {
	for i := range s.kv {
		if bytes.Equal(s.kv[i].k, k) {
			return i
		}
	}
	return -1
}

func (s *zzStore) Get(k []byte) ([]byte, lib.ErrorI) {
	if i := s.find(k); i >= 0 {
		return s.kv[i].v, nil
	}
	return nil, nil
}

func (s *zzStore) Set(k, v []byte) lib.ErrorI {
	if i := s.find(k); i >= 0 {
		s.kv[i].v = v
		return nil
	}
	s.kv = append(s.kv, zzKV{bytes.Clone(k), v})
	return nil
}

func (s *zzStore) Delete(k []byte) lib.ErrorI {
	if i := s.find(k); i >= 0 {
		s.kv = append(s.kv[:i:i], s.kv[i+1:]...)
	}
	return nil
}

type zzIter struct {
	items []zzKV
	i     int
}

func (it *zzIter) Valid() bool   { return it.i < len(it.items) }
func (it *zzIter) Next()         { it.i++ }
func (it *zzIter) Key() []byte   { return it.items[it.i].k }
func (it *zzIter) Value() []byte { return it.items[it.i].v }
func (it *zzIter) Close()        {}

func (s *zzStore) iter(prefix []byte, reverse bool) (lib.IteratorI, lib.ErrorI) {
	var items []zzKV
	for _, e := range s.kv {
		if bytes.HasPrefix(e.k, prefix) {
			items = append(items, e)
		}
	}
	// insertion sort by key
	for i := 1; i < len(items); i++ {
		for j := i; j > 0; j-- {
			c := bytes.Compare(items[j].k, items[j-1].k)
			if (!reverse && c < 0) || (reverse && c > 0) {
				items[j], items[j-1] = items[j-1], items[j]
			} else {
				break
			}
		}
	}
	return &zzIter{items: items}, nil
}

func (s *zzStore) Iterator(p []byte) (lib.IteratorI, lib.ErrorI)    { return s.iter(p, false) }
func (s *zzStore) RevIterator(p []byte) (lib.IteratorI, lib.ErrorI) { return s.iter(p, true) }

func (s *zzStore) NewTxn() lib.StoreI {
	c := &zzStore{parent: s, version: s.version, txs: s.txs, dsigs: s.dsigs}
	c.kv = append(c.kv, s.kv...)
	s.ops = append(s.ops, "NewTxn")
	return c
}
func (s *zzStore) Flush() lib.ErrorI {
	if s.parent != nil {
		s.parent.kv = append([]zzKV(nil), s.kv...)
		s.parent.txs, s.parent.dsigs = s.txs, s.dsigs
	}
	s.ops = append(s.ops, "Flush")
	return nil
}
func (s *zzStore) Discard() {
	s.ops = append(s.ops, "Discard")
	if s.parent != nil {
		s.kv = append([]zzKV(nil), s.parent.kv...)
		s.txs, s.dsigs = s.parent.txs, s.parent.dsigs
	}
}
func (s *zzStore) Reset()                              { s.Discard(); s.ops = append(s.ops, "Reset") }
func (s *zzStore) Root() ([]byte, lib.ErrorI)          { return nil, nil }
func (s *zzStore) DB() *pebble.DB                      { return nil }
func (s *zzStore) Version() uint64                     { return s.version }
func (s *zzStore) Copy() (lib.StoreI, lib.ErrorI)      { return s.NewTxn(), nil }
func (s *zzStore) Commit() ([]byte, lib.ErrorI)        { s.version++; return nil, nil }
func (s *zzStore) Close() lib.ErrorI                   { return nil }
func (s *zzStore) IncreaseVersion()                    { s.version++ }
func (s *zzStore) NewReadOnly(uint64) (lib.StoreI, lib.ErrorI) { return s.NewTxn(), nil }
func (s *zzStore) GetProof([]byte) ([]*lib.Node, lib.ErrorI)   { return nil, nil }
func (s *zzStore) VerifyProof(k, v []byte, m bool, root []byte, p []*lib.Node) (bool, lib.ErrorI) {
	return false, nil
}

// indexer (only what the FSM uses)
func (s *zzStore) IndexQC(*lib.QuorumCertificate) lib.ErrorI { return nil }
func (s *zzStore) IndexTx(r *lib.TxResult) lib.ErrorI        { s.txs = append(s.txs, r); return nil }
func (s *zzStore) IndexBlock(*lib.BlockResult) lib.ErrorI    { return nil }
func (s *zzStore) IndexDoubleSigner(a []byte, h uint64) lib.ErrorI {
	s.dsigs = append(s.dsigs, zzDS{bytes.Clone(a), h})
	return nil
}
func (s *zzStore) IndexCheckpoint(uint64, *lib.Checkpoint) lib.ErrorI { return nil }
func (s *zzStore) DeleteTxsForHeight(uint64) lib.ErrorI               { return nil }
func (s *zzStore) DeleteBlockForHeight(uint64) lib.ErrorI             { return nil }
func (s *zzStore) DeleteQCForHeight(uint64) lib.ErrorI                { return nil }
func (s *zzStore) DeleteCheckpointsForChain(uint64) lib.ErrorI        { return nil }
func (s *zzStore) StateChangeKeys(uint64, []byte) ([][]byte, bool, lib.ErrorI) {
	return nil, false, nil
}
func (s *zzStore) GetTxByHash(h []byte) (*lib.TxResult, lib.ErrorI) {
	for _, r := range s.txs {
		if r.TxHash == lib.BytesToString(h) {
			return r, nil
		}
	}
	return nil, nil
}
func (s *zzStore) GetTxsByHeight(uint64, bool, lib.PageParams) (*lib.Page, lib.ErrorI) { return nil, nil }
func (s *zzStore) GetTxsBySender(crypto.AddressI, bool, lib.PageParams) (*lib.Page, lib.ErrorI) {
	return nil, nil
}
func (s *zzStore) GetTxsByRecipient(crypto.AddressI, bool, lib.PageParams) (*lib.Page, lib.ErrorI) {
	return nil, nil
}
func (s *zzStore) GetEventsByBlockHeight(uint64, bool, lib.PageParams) (*lib.Page, lib.ErrorI) {
	return nil, nil
}
func (s *zzStore) GetEventsByAddress(crypto.AddressI, bool, lib.PageParams) (*lib.Page, lib.ErrorI) {
	return nil, nil
}
func (s *zzStore) GetEventsByChainId(uint64, bool, lib.PageParams) (*lib.Page, lib.ErrorI) {
	return nil, nil
}
func (s *zzStore) GetBlockByHash([]byte) (*lib.BlockResult, lib.ErrorI)        { return nil, nil }
func (s *zzStore) GetBlockByHeight(uint64) (*lib.BlockResult, lib.ErrorI)      { return nil, nil }
func (s *zzStore) GetBlockHeaderByHeight(uint64) (*lib.BlockResult, lib.ErrorI) { return nil, nil }
func (s *zzStore) GetBlocks(lib.PageParams) (*lib.Page, lib.ErrorI)            { return nil, nil }
func (s *zzStore) GetQCByHeight(uint64) (*lib.QuorumCertificate, lib.ErrorI)   { return nil, nil }
func (s *zzStore) GetDoubleSigners() ([]*lib.DoubleSigner, lib.ErrorI)         { return nil, nil }
func (s *zzStore) GetDoubleSignersAsOf(uint64) ([]*lib.DoubleSigner, lib.ErrorI) { return nil, nil }
func (s *zzStore) IsValidDoubleSigner(a []byte, h uint64) (bool, lib.ErrorI) {
	for _, d := range s.dsigs {
		if d.height == h && bytes.Equal(d.addr, a) {
			return false, nil
		}
	}
	return true, nil
}
func (s *zzStore) GetCheckpoint(uint64, uint64) (lib.HexBytes, lib.ErrorI)          { return nil, nil }
func (s *zzStore) GetMostRecentCheckpoint(uint64) (*lib.Checkpoint, lib.ErrorI)     { return nil, nil }
func (s *zzStore) GetAllCheckpoints(uint64) ([]*lib.Checkpoint, lib.ErrorI)         { return nil, nil }

var _ lib.StoreI = &zzStore{}

// zzAddr: the i-th concrete 20-byte address of the world.
func zzAddr(i int) []byte {
	a := make([]byte, crypto.AddressSize)
	for j := range a {
		a[j] = byte(0x10*(i+1) + j%7)
	}
	return a
}

// zzFSM: a state machine at height h on an empty store, default governance parameters.
func zzFSM(h uint64) (*StateMachine, *zzStore) {
	st := &zzStore{}
	sm := &StateMachine{
		store:             st,
		NetworkID:         1,
		height:            h,
		slashTracker:      NewSlashTracker(),
		proposeVoteConfig: AcceptAllProposals,
		events:            new(lib.EventsTracker),
		log:               zzLogF{},
		cache:             &cache{accounts: map[uint64]*Account{}, pools: map[uint64]*Pool{}},
	}
	sm.Config.ChainId = 1
	sm.Config.NetworkID = 1
	if err := sm.SetParams(DefaultParams()); err != nil {
		panic("zzFSM: SetParams: " + err.Error())
	}
	return sm, st
}

// zzSumWorld: account balances + pool balances + stakes, as a non-wrapping integer sum; ok=false if
// any partial sum wrapped.
func zzSumWorld(sm *StateMachine) (sum uint64, ok bool) {
	ok = true
	add := func(x uint64) {
		if sum+x < sum {
			ok = false
		}
		sum += x
	}
	accs, e1 := sm.GetAccounts()
	pools, e2 := sm.GetPools()
	vals, e3 := sm.GetValidators()
	if e1 != nil || e2 != nil || e3 != nil {
		return 0, false
	}
	for _, a := range accs {
		add(a.Amount)
	}
	for _, p := range pools {
		add(p.Amount)
	}
	for _, v := range vals {
		add(v.StakedAmount)
	}
	return
}
