package fsm

import (
	"github.com/canopy-network/canopy/lib"
	"github.com/canopy-network/canopy/lib/crypto"
)

// The "small world" the FSM harnesses run in (DESIGN §4): the real fsm.StateMachine on top of zzStore.

// zzAddr: the i-th concrete 20-byte address of the world.
func zzAddr(i int) []byte {
	a := make([]byte, crypto.AddressSize)
	for j := range a {
		a[j] = byte(0x10*(i+1) + j%7)
	}
	return a
}

// zzFSM: a state machine at height h on an empty store, default governance parameters.
func zzFSM(h uint64) (*StateMachine, *zzStore) {
	st := &zzStore{}
	sm := &StateMachine{
		store:             st,
		NetworkID:         1,
		height:            h,
		slashTracker:      NewSlashTracker(),
		proposeVoteConfig: AcceptAllProposals,
		events:            new(lib.EventsTracker),
		log:               zzLogF{},
		cache:             &cache{accounts: map[uint64]*Account{}, pools: map[uint64]*Pool{}},
	}
	sm.Config.ChainId = 1
	sm.Config.NetworkID = 1
	if err := sm.SetParams(DefaultParams()); err != nil {
		panic("zzFSM: SetParams: " + err.Error())
	}
	return sm, st
}

// zzSumWorld: account balances + pool balances + stakes, as a non-wrapping integer sum; ok=false if
// any partial sum wrapped.
func zzSumWorld(sm *StateMachine) (sum uint64, ok bool) {
	ok = true
	add := func(x uint64) {
		if sum+x < sum {
			ok = false
		}
		sum += x
	}
	accs, e1 := sm.GetAccounts()
	pools, e2 := sm.GetPools()
	vals, e3 := sm.GetValidators()
	if e1 != nil || e2 != nil || e3 != nil {
		return 0, false
	}
	for _, a := range accs {
		add(a.Amount)
	}
	for _, p := range pools {
		add(p.Amount)
	}
	for _, v := range vals {
		add(v.StakedAmount)
	}
	return
}
