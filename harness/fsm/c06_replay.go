package fsm

import (
	"context"

	"github.com/canopy-network/canopy/lib"
)

// C06: replay protection. World and transactions as in C07 (symbolic three-account world, symbolic
// send transaction, ideal signatures). A transaction that was included in a block and indexed is
// offered again in the next block.
//   O1  the identical bytes are not executed again (indexer lookup), and two copies inside one block
//       abort the block
//   O2  a transaction for another network id or chain id is never executed
//   O3  a transaction whose created height is outside [h-4320, h+4320] is never executed
//   O4  a different byte string that decodes to the same signed content (protobuf has many
//       encodings per message) is not executed again

func zzIncludeAndIndex(sm *StateMachine, st *zzStore, txs ...[]byte) (*lib.ApplyBlockResults, lib.ErrorI) {
	r := &lib.ApplyBlockResults{}
	err := sm.ApplyTransactions(context.Background(), txs, r, false)
	if err == nil {
		for _, res := range r.Results {
			st.IndexTx(res)
		}
	}
	return r, err
}

//zz:harness mode=int unwind=60 maxpaths=40000 timebudget=1500 replay=model param.fixparties@quick=1
//zz:reach O1.included-once
func ZZ_C06_O1_identical_bytes() {
	w := zzWorldValues()
	sm, st := zzBuildWorld(w)
	t := zzSendTxBytes(zzValidEnvelopeSpec("t"))
	r1, e1 := zzIncludeAndIndex(sm, st, t)
	if e1 != nil || len(r1.Results) != 1 {
		return
	}
	zzReach("O1.included-once")
	before := zzBalances(sm)
	sm.height++
	sm.ResetCaches()
	r2, e2 := zzIncludeAndIndex(sm, st, t)
	zzAssert("O1.identical-bytes-not-executed-again", e2 != nil || len(r2.Results) == 0)
	zzAssert("O1.balances-unchanged-by-replay", e2 != nil || zzBalances(sm) == before)
	// two copies in one block: the block is rejected
	sm2, st2 := zzBuildWorld(w)
	_, e3 := zzIncludeAndIndex(sm2, st2, t, t)
	zzAssert("O1.same-block-duplicate-aborts-block", e3 != nil)
}

//zz:harness mode=int unwind=60 maxpaths=40000 timebudget=1500 replay=model
//zz:reach O23.included
func ZZ_C06_O2_O3_domain_and_window() {
	w := zzWorldValues()
	sm, st := zzBuildWorld(w)
	h := zzU64("height")
	zzAssume(h >= 2)
	sm.height = h
	// sender, recipient and signer fixed (C05 quantifies over signers); the envelope is symbolic
	spec := zzTxSpec{from: 0, to: 1, signer: 0, amount: zzN64("t.amount"), fee: zzN64("t.fee"),
		created: zzU64("t.created"), time: zzU64("t.time"), net: zzU64("t.net"), chain: zzU64("t.chain")}
	r, e := zzIncludeAndIndex(sm, st, zzSendTxBytes(spec))
	if e != nil || len(r.Results) != 1 {
		return
	}
	zzReach("O23.included")
	zzAssert("O2.network-id-matches", spec.net == uint64(sm.NetworkID))
	zzAssert("O2.chain-id-matches", spec.chain == sm.Config.ChainId)
	zzAssert("O3.created-height-not-too-new", spec.created <= h+BlockAcceptanceRange || h+BlockAcceptanceRange < h)
	zzAssert("O3.created-height-not-too-old", h <= BlockAcceptanceRange || spec.created >= h-BlockAcceptanceRange)
}

//zz:harness mode=int unwind=60 maxpaths=40000 timebudget=1500 replay=model param.fixparties@quick=1
//zz:reach O4.included-once
func ZZ_C06_O4_reencoded_bytes() {
	w := zzWorldValues()
	sm, st := zzBuildWorld(w)
	t := zzSendTxBytes(zzValidEnvelopeSpec("t"))
	r1, e1 := zzIncludeAndIndex(sm, st, t)
	if e1 != nil || len(r1.Results) != 1 {
		return
	}
	zzReach("O4.included-once")
	sm.height++
	sm.ResetCaches()
	r2, e2 := zzIncludeAndIndex(sm, st, zzAltEncoding(t, 1))
	zzAssert("O4.same-signed-content-other-encoding-not-executed-again", e2 != nil || len(r2.Results) == 0)
}


// O1b: the same for a NON-canonical encoding: a byte string that is not the deterministic encoding of
// its transaction (reordered fields, padded varints ...) is still identified by its own bytes - once
// included and indexed, the identical bytes are not executed again.
//
//zz:harness mode=int unwind=60 maxpaths=40000 timebudget=1500 replay=model param.fixparties@quick=1
//zz:reach O1b.included-once
func ZZ_C06_O1b_identical_noncanonical_bytes() {
	w := zzWorldValues()
	sm, st := zzBuildWorld(w)
	t := zzAltEncoding(zzSendTxBytes(zzValidEnvelopeSpec("t")), 1)
	r1, e1 := zzIncludeAndIndex(sm, st, t)
	if e1 != nil || len(r1.Results) != 1 {
		return
	}
	zzReach("O1b.included-once")
	before := zzBalances(sm)
	sm.height++
	sm.ResetCaches()
	r2, e2 := zzIncludeAndIndex(sm, st, t)
	zzAssert("O1b.identical-noncanonical-bytes-not-executed-again", e2 != nil || len(r2.Results) == 0)
	zzAssert("O1b.balances-unchanged-by-replay", e2 != nil || zzBalances(sm) == before)
}
