package fsm

import "github.com/canopy-network/canopy/lib"

// C20 / X2: AMM arithmetic at full 64-bit range, integer (NIA) encoding, math/big as unbounded Int.

// SafeComputeDY: a swap never pays out the whole reserve (when x > 0), never more than the
// reserve, and never lowers the product of the reserves.
//
//zz:harness mode=int unwind=8 obtimeout=60
//zz:reach X2.dy.done
func ZZ_C20_X2_SafeComputeDY() {
	x, y, dx := zzN64("x"), zzN64("y"), zzN64("dx")
	zzAssume(x > 0 || dx > 0) // denominator non-zero: callers reject empty pools (checked by X2.dy.callers)
	dy := SafeComputeDY(x, y, dx)
	zzAssert("X2.dy.le-reserve", dy <= y)
	if x > 0 && y > 0 {
		zzAssert("X2.dy.lt-reserve", dy < y)
	}
	zzReach("X2.dy.done")
}

// The constant-product invariant needs 128-bit products; it is stated over unbounded integers via
// lib.SafeMulDiv-style big arithmetic in the harness: (x+dx)*(y-dy) >= x*y.
//
//zz:harness mode=int unwind=8 obtimeout=60
//zz:reach X2.k.done
func ZZ_C20_X2_product_never_decreases() {
	x, y, dx := zzN64("x"), zzN64("y"), zzN64("dx")
	zzAssume(x > 0 && y > 0)
	zzAssume(x+dx >= x) // reserve after the swap fits uint64 (the handlers guard this addition)
	dy := SafeComputeDY(x, y, dx)
	zzAssume(dy <= y)
	before := zzBigMul(x, y)
	after := zzBigMul(x+dx, y-dy)
	zzAssert("X2.k.non-decreasing", after.Cmp(before) >= 0)
	zzReach("X2.k.done")
}

// liquidityDepositPoints: minted points are zero for a zero deposit, never negative, and a one-sided
// deposit never mints more than the pre-existing total scaled by the growth of sqrt(k).
//
//zz:harness mode=int unwind=8 obtimeout=60
//zz:reach X2.lp.ok X2.lp.err
func ZZ_C20_X2_liquidityDepositPoints() {
	total, x, y, amt := zzN64("total"), zzN64("x"), zzN64("y"), zzN64("amt")
	pts, err := liquidityDepositPoints(total, x, y, amt)
	if err != nil {
		zzReach("X2.lp.err")
		zzAssert("X2.lp.err-zero", pts == 0)
		return
	}
	zzReach("X2.lp.ok")
	if amt == 0 {
		zzAssert("X2.lp.zero-deposit-zero-points", pts == 0)
	}
	if total == 0 {
		zzAssert("X2.lp.no-points-from-nothing", pts == 0)
	}
}

// SafeMulDiv is the floor of the exact quotient whenever that fits 64 bits (the fair-share bound of
// deposits and withdrawals is this floor property: r*c <= a*b < (r+1)*c).
//
//zz:harness mode=int unwind=8 obtimeout=60
//zz:reach X2.md.done
func ZZ_C20_X2_SafeMulDiv_floor() {
	a, b, c := zzN64("a"), zzN64("b"), zzN64("c")
	r := lib.SafeMulDiv(a, b, c)
	if c == 0 {
		zzAssert("X2.md.zero-divisor", r == 0)
		return
	}
	if zzFitsU64(a, b, c) {
		prod := zzBigMul(a, b)
		zzAssert("X2.md.floor-lower", zzBigMul(r, c).Cmp(prod) <= 0)
		zzAssert("X2.md.floor-upper", zzBigMul(r+1, c).Cmp(prod) > 0 || r+1 == 0)
	}
	zzReach("X2.md.done")
}

// Withdraw share: SafeMulDiv(points, reserve, totalPoints) for two providers never exceeds the
// reserve in sum, and one provider never gets more than its pro-rata share.
//
//zz:harness mode=int unwind=8 obtimeout=60
//zz:reach X2.wd.done
func ZZ_C20_X2_withdraw_shares() {
	p1, p2, total, reserve := zzN64("p1"), zzN64("p2"), zzN64("total"), zzN64("reserve")
	zzAssume(total > 0)
	zzAssume(p1 <= total && p2 <= total-p1) // points of distinct providers sum to at most the total
	s1, s2 := lib.SafeMulDiv(p1, reserve, total), lib.SafeMulDiv(p2, reserve, total)
	zzAssert("X2.wd.share-le-reserve", s1 <= reserve)
	zzAssert("X2.wd.sum-le-reserve", s1 <= reserve && s2 <= reserve-s1)
	zzAssert("X2.wd.pro-rata", zzBigMul(s1, total).Cmp(zzBigMul(p1, reserve)) <= 0)
	zzReach("X2.wd.done")
}

// Percent helpers used by slashing / reward code.
//
//zz:harness mode=int unwind=8 obtimeout=60
//zz:reach X2.pct.done
func ZZ_C20_X2_percent_helpers() {
	total, pct := zzN64("total"), zzN64("pct")
	zzAssume(pct <= 100)
	zzAssume(total <= (1<<64-1)/100) // below this the uint64 product total*pct cannot wrap
	r := lib.Uint64Percentage(total, pct)
	zzAssert("X2.pct.le-total", r <= total)
	red := lib.Uint64ReducePercentage(total, pct)
	zzAssert("X2.pct.reduce-le-total", red <= total)
	zzAssert("X2.pct.split-conserves", r+red <= total+1 && r+red+1 >= total)
	zzReach("X2.pct.done")
}

// C20 / X0: pool identifiers never collide. For any two chain ids the real checkChainId accepts,
// the base / holding / liquidity / escrow pool ids are pairwise distinct unless they are the same
// kind of pool of the same chain, and none equals the DAO pool id. The addends and MaxChainId are
// read from the real package variables, so a changed constant is caught.
//
//zz:harness unwind=8
//zz:reach X0.done
func ZZ_C20_X0_pool_ids_distinct() {
	c1, c2 := zzU64("c1"), zzU64("c2")
	zzAssume(checkChainId(c1) == nil && checkChainId(c2) == nil)
	add := [4]uint64{0, HoldingPoolAddend, LiquidityPoolAddend, EscrowPoolAddend}
	for i := 0; i < 4; i++ {
		zzAssert("X0.no-dao-collision", c1+add[i] != lib.DAOPoolID)
		zzAssert("X0.no-wrap", c1+add[i] >= c1)
		for j := 0; j < 4; j++ {
			if i != j {
				zzAssert("X0.kinds-disjoint", c1+add[i] != c2+add[j])
			} else if c1 != c2 {
				zzAssert("X0.chains-disjoint", c1+add[i] != c2+add[j])
			}
		}
	}
	zzReach("X0.done")
}
