package fsm

import (
	"github.com/canopy-network/canopy/lib"
	"github.com/canopy-network/canopy/lib/crypto"
)

// C12: staking bookkeeping (one inductive step) and no self-wedging.
// Pre-state: two validators built through the real genesis builder SetValidators - which writes
// the record, the committee/delegate indexes, the supply tallies and the unstaking / paused
// markers - with symbolic stake (64-bit, integer encoding), symbolic delegate flag, symbolic
// status taken from {active, paused until 20, unstaking until 10, unstaking until 20}.
// Invariant Inv12 (checked before and after one real operation):
//   supply.Staked = sum of stakes, supply.DelegatedOnly = sum of delegate stakes,
//   marker <-> record: an unstaking key (h,a) exists iff validator a exists with UnstakingHeight=h!=0,
//                      a paused key (h,a) exists iff validator a exists with MaxPausedHeight=h!=0.
// No-wedge obligation: from the post-state the end-block actions DeleteFinishedUnstaking and
// ForceUnstakeMaxPaused return nil at every height that carries a marker (EndBlock aborts the block
// on any error, so an error there means the chain cannot produce that block).

// the net-address syntax check drags in regexp (sync.Pool): arbitrary verdict instead
//zz:stub github.com/canopy-network/canopy/lib.ValidNetURLInput nondet

var zzHeights = []uint64{10, 20}

func zzValidator(i int) *Validator {
	v := &Validator{
		Address:      zzAddr(i),
		PublicKey:    zzAddr(i + 4),
		StakedAmount: zzN64("stake"),
		Committees:   []uint64{1},
		Output:       zzAddr(i),
		Delegate:     zzBool("delegate"),
	}
	switch zzConcrete(zzInt("committees"), 0, zzParam("committeeshapes", 0)) {
	case 1:
		v.Committees = []uint64{1, 2}
	case 2:
		v.Committees = []uint64{2, 1}
	}
	switch zzConcrete(zzInt("status"), 0, 3) {
	case 1:
		v.MaxPausedHeight = 20
	case 2:
		v.UnstakingHeight = 10
	case 3:
		v.UnstakingHeight = 20
	}
	return v
}

func zzStakingWorld(sm *StateMachine, n int) []*Validator {
	var vals []*Validator
	var sum uint64
	for i := 0; i < n; i++ {
		v := zzValidator(i)
		zzAssume(v.StakedAmount >= 1 && sum+v.StakedAmount >= sum)
		sum += v.StakedAmount
		vals = append(vals, v)
	}
	supply := &Supply{}
	if err := sm.SetValidators(vals, supply); err != nil {
		panic("SetValidators: " + err.Error())
	}
	if err := sm.SetSupply(supply); err != nil {
		panic("SetSupply")
	}
	sm.ResetCaches()
	return vals
}

func zzHasKey(sm *StateMachine, k []byte) bool {
	bz, err := sm.Get(k)
	return err == nil && bz != nil
}

// zzInv12 asserts the invariant under obligation ids prefixed by tag.
func zzInv12(sm *StateMachine, tag string, n int) {
	sup, err := sm.GetSupply()
	zzAssert(tag+".supply-readable", err == nil)
	var staked, delegated uint64
	for i := 0; i < n; i++ {
		addr := crypto.NewAddress(zzAddr(i))
		exists, e := sm.GetValidatorExists(addr)
		zzAssert(tag+".validator-readable", e == nil)
		var v *Validator
		if exists {
			v, e = sm.GetValidator(addr)
			zzAssert(tag+".validator-readable", e == nil)
			staked += v.StakedAmount
			if v.Delegate {
				delegated += v.StakedAmount
			}
		}
		for _, h := range zzHeights {
			um := zzHasKey(sm, KeyForUnstaking(h, addr))
			pm := zzHasKey(sm, KeyForPaused(h, addr))
			zzAssert(tag+".unstaking-marker-iff-record", um == (exists && v.UnstakingHeight == h))
			zzAssert(tag+".paused-marker-iff-record", pm == (exists && v.MaxPausedHeight == h))
		}
		if exists {
			uk, pk := v.UnstakingHeight == 0, v.MaxPausedHeight == 0
			for _, h := range zzHeights {
				uk, pk = zzOr(uk, v.UnstakingHeight == h), zzOr(pk, v.MaxPausedHeight == h)
			}
			zzAssert(tag+".status-heights-known", zzAnd(uk, pk))
		}
	}
	zzAssert(tag+".staked-tally", sup.Staked == staked)
	zzAssert(tag+".delegated-tally", sup.DelegatedOnly == delegated)
	// per-committee tallies = sums over the records that list the committee
	for _, c := range []uint64{1, 2} {
		var cs, cd uint64
		for i := 0; i < n; i++ {
			addr := crypto.NewAddress(zzAddr(i))
			if ok, _ := sm.GetValidatorExists(addr); !ok {
				continue
			}
			v, _ := sm.GetValidator(addr)
			for _, id := range v.Committees {
				if id == c {
					cs += v.StakedAmount
					if v.Delegate {
						cd += v.StakedAmount
					}
				}
			}
		}
		ps, e1 := sm.GetCommitteeStakedSupplyForChain(c)
		pd, e2 := sm.GetDelegateStakedSupplyForChain(c)
		zzAssert(tag+".committee-tally-readable", e1 == nil && e2 == nil)
		if e1 == nil && e2 == nil {
			zzAssert(tag+".committee-staked-tally", ps.Amount == cs)
			zzAssert(tag+".committee-delegated-tally", pd.Amount == cd)
		}
	}
}

// zzNoWedge: the deferred end-block actions succeed at every marker height.
func zzNoWedge(sm *StateMachine, tag string) {
	for _, h := range zzHeights {
		sm.height = h
		sm.ResetCaches()
		zzAssert(tag+".DeleteFinishedUnstaking-returns-nil", sm.DeleteFinishedUnstaking() == nil)
		zzAssert(tag+".ForceUnstakeMaxPaused-returns-nil", sm.ForceUnstakeMaxPaused() == nil)
	}
}

// base case + vacuity: the genesis builder establishes the invariant and the end-block actions work.
//
//zz:harness mode=int unwind=60 maxpaths=20000
//zz:reach C12.base.done
func ZZ_C12_base_state() {
	sm, _ := zzFSM(5)
	zzStakingWorld(sm, 2)
	zzInv12(sm, "C12.base", 2)
	zzNoWedge(sm, "C12.base")
	zzReach("C12.base.done")
}

// SlashValidator (double-sign / non-sign slashes): every percent 0..100 incl. rounding stake to 0.
//
//zz:harness mode=int unwind=60 maxpaths=20000
//zz:reach C12.slash.done
func ZZ_C12_step_SlashValidator() {
	sm, _ := zzFSM(5)
	vals := zzStakingWorld(sm, 1)
	params, err := sm.GetParamsVal()
	if err != nil {
		panic("params")
	}
	pct := zzN64("percent")
	zzAssume(pct <= 100)
	// slashes name committee members only (evidence and non-signer lists are built from committee
	// bitmaps); delegates are never slashed - stated precondition of this step
	zzAssume(!vals[0].Delegate)
	v, e := sm.GetValidator(crypto.NewAddress(vals[0].Address))
	if e != nil {
		panic("get validator")
	}
	serr := sm.SlashValidator(v, 1, pct, params)
	zzAssert("C12.slash.returns-nil", serr == nil)
	zzInv12(sm, "C12.slash", 1)
	zzNoWedge(sm, "C12.slash")
	zzReach("C12.slash.done")
}


// ---- one step per staking operation -------------------------------------------------------------

// zzStakingWorldAcc: the staking world plus a funded account 2 (signer / output of new stake).
func zzStakingWorldAcc(sm *StateMachine, n int) ([]*Validator, uint64) {
	vals := zzStakingWorld(sm, n)
	bal := zzN64("acct")
	sup, _ := sm.GetSupply()
	zzAssume(sup.Total+bal >= sup.Total)
	sup.Total += bal
	if sm.SetAccount(&Account{Address: zzAddr(2), Amount: bal}) != nil || sm.SetSupply(sup) != nil {
		panic("account")
	}
	sm.ResetCaches()
	return vals, bal
}

//zz:harness mode=int unwind=60 maxpaths=40000 timebudget=1200 param.committeeshapes@thorough=2 param.vals@thorough=2
//zz:reach C12.unstake.ok C12.unstake.done
func ZZ_C12_step_Unstake() {
	sm, _ := zzFSM(5)
	zzProtocol(sm, zzConcrete(zzInt("protocol"), 1, 2))
	zzStakingWorld(sm, zzParam("vals", 1))
	err := sm.HandleMessageUnstake(&MessageUnstake{Address: zzAddr(0)})
	if err == nil {
		zzReach("C12.unstake.ok")
		v, e := sm.GetValidator(crypto.NewAddress(zzAddr(0)))
		zzAssert("C12.unstake.marks-unstaking", e == nil && v.UnstakingHeight != 0 && v.MaxPausedHeight == 0)
		if e == nil {
			zzHeights = append([]uint64{v.UnstakingHeight}, 10, 20)
		}
	}
	zzInv12(sm, "C12.unstake", zzParam("vals", 1))
	zzNoWedge(sm, "C12.unstake")
	zzReach("C12.unstake.done")
}

//zz:harness mode=int unwind=60 maxpaths=40000 timebudget=1200 param.committeeshapes@thorough=2 param.vals@thorough=2
//zz:reach C12.pause.ok C12.pause.done
func ZZ_C12_step_Pause_Unpause() {
	sm, _ := zzFSM(5)
	zzProtocol(sm, zzConcrete(zzInt("protocol"), 1, 2))
	zzStakingWorld(sm, zzParam("vals", 1))
	var err lib.ErrorI
	if zzBool("unpause") {
		err = sm.HandleMessageUnpause(&MessageUnpause{Address: zzAddr(0)})
	} else {
		err = sm.HandleMessagePause(&MessagePause{Address: zzAddr(0)})
		if err == nil {
			v, e := sm.GetValidator(crypto.NewAddress(zzAddr(0)))
			if e == nil {
				zzHeights = append([]uint64{v.MaxPausedHeight}, 10, 20)
			}
		}
	}
	if err == nil {
		zzReach("C12.pause.ok")
	}
	zzInv12(sm, "C12.pause", zzParam("vals", 1))
	zzNoWedge(sm, "C12.pause")
	zzReach("C12.pause.done")
}

//zz:harness mode=int unwind=60 maxpaths=60000 timebudget=1500 param.committeeshapes=2
//zz:reach C12.edit.ok C12.edit.done
func ZZ_C12_step_EditStake() {
	sm, _ := zzFSM(5)
	zzProtocol(sm, zzConcrete(zzInt("protocol"), 1, 2))
	vals, bal := zzStakingWorldAcc(sm, 1)
	sup0, _ := sm.GetSupply()
	msg := &MessageEditStake{Address: zzAddr(0), Amount: zzN64("newAmount"), OutputAddress: vals[0].Output, Signer: zzAddr(2), Compound: zzBool("compound")}
	switch zzConcrete(zzInt("newCommittees"), 0, 3) {
	case 0:
		msg.Committees = []uint64{1}
	case 1:
		msg.Committees = []uint64{2}
	case 2:
		msg.Committees = []uint64{1, 2}
	case 3:
		msg.Committees = []uint64{2, 1}
	}
	if !vals[0].Delegate {
		msg.NetAddress = "tcp://x"
	}
	err := sm.HandleMessageEditStake(msg)
	if err == nil {
		zzReach("C12.edit.ok")
		v, e := sm.GetValidator(crypto.NewAddress(zzAddr(0)))
		zzAssert("C12.edit.record-readable", e == nil)
		if e == nil {
			zzAssert("C12.edit.stake-never-decreases", v.StakedAmount >= vals[0].StakedAmount)
			a, _ := sm.GetAccountBalance(crypto.NewAddress(zzAddr(2)))
			zzAssert("C12.edit.signer-pays-exactly-the-increase", bal-a == v.StakedAmount-vals[0].StakedAmount)
			sup, _ := sm.GetSupply()
			zzAssert("C12.edit.total-supply-unchanged", sup.Total == sup0.Total)
		}
		zzInv12(sm, "C12.edit", 1)
		zzNoWedge(sm, "C12.edit")
	}
	zzReach("C12.edit.done")
}

//zz:harness mode=int unwind=60 maxpaths=60000 timebudget=1500 param.committeeshapes=2
//zz:reach C12.finish.returned C12.finish.done
func ZZ_C12_step_DeleteFinishedUnstaking() {
	sm, _ := zzFSM(5)
	zzProtocol(sm, zzConcrete(zzInt("protocol"), 1, 2))
	n := zzParam("vals", 2)
	vals := zzStakingWorld(sm, n)
	sup0, _ := sm.GetSupply()
	sm.height = 10
	sm.ResetCaches()
	err := sm.DeleteFinishedUnstaking()
	zzAssert("C12.finish.returns-nil", err == nil)
	var returned uint64
	for i := 0; i < n; i++ {
		ok, _ := sm.GetValidatorExists(crypto.NewAddress(zzAddr(i)))
		if vals[i].UnstakingHeight == 10 {
			zzAssert("C12.finish.finished-validator-removed", !ok)
			returned += vals[i].StakedAmount
			zzReach("C12.finish.returned")
		} else {
			zzAssert("C12.finish.other-validators-kept", ok)
		}
	}
	var got uint64
	for i := 0; i < n; i++ {
		a, _ := sm.GetAccountBalance(crypto.NewAddress(zzAddr(i)))
		got += a
	}
	zzAssert("C12.finish.stake-returned-to-output", got == returned)
	sup, _ := sm.GetSupply()
	zzAssert("C12.finish.total-supply-unchanged", sup.Total == sup0.Total)
	zzInv12(sm, "C12.finish", n)
	zzNoWedge(sm, "C12.finish")
	zzReach("C12.finish.done")
}

//zz:harness mode=int unwind=60 maxpaths=60000 timebudget=1500 param.committeeshapes=2
//zz:reach C12.maxpause.done C12.maxpause.forced
func ZZ_C12_step_ForceUnstakeMaxPaused() {
	sm, _ := zzFSM(5)
	zzProtocol(sm, zzConcrete(zzInt("protocol"), 1, 2))
	n := zzParam("vals", 2)
	vals := zzStakingWorld(sm, n)
	sm.height = 20
	sm.ResetCaches()
	err := sm.ForceUnstakeMaxPaused()
	zzAssert("C12.maxpause.returns-nil", err == nil)
	extra := []uint64{10, 20}
	for i := 0; i < n; i++ {
		v, e := sm.GetValidator(crypto.NewAddress(zzAddr(i)))
		zzAssert("C12.maxpause.nobody-removed", e == nil)
		if e != nil {
			continue
		}
		if vals[i].MaxPausedHeight == 20 {
			zzReach("C12.maxpause.forced")
			zzAssert("C12.maxpause.paused-too-long-is-unstaking", v.UnstakingHeight != 0 && v.MaxPausedHeight == 0)
			extra = append(extra, v.UnstakingHeight)
		} else {
			zzAssert("C12.maxpause.others-untouched", v.UnstakingHeight == vals[i].UnstakingHeight && v.MaxPausedHeight == vals[i].MaxPausedHeight)
		}
	}
	zzHeights = extra
	zzInv12(sm, "C12.maxpause", n)
	zzNoWedge(sm, "C12.maxpause")
	zzReach("C12.maxpause.done")
}

// SlashValidator under protocol v2 (committee-scoped slashing with the per-block cap and ejection)
// with a governance minimum stake, so a slash may eject, force-unstake or delete the validator.
//
//zz:harness mode=int unwind=60 maxpaths=60000 timebudget=1500 param.committeeshapes=2
//zz:reach C12.slash2.done C12.slash2.ejected
func ZZ_C12_step_SlashValidator_v2() {
	// the slash may land in the very block in which the validator finishes unstaking (height 10 / 20)
	sm, _ := zzFSM([]uint64{5, 10, 20}[zzConcrete(zzInt("height"), 0, 2)])
	zzProtocol(sm, 2)
	vals := zzStakingWorld(sm, 1)
	zzAssume(!vals[0].Delegate)
	params, _ := sm.GetParamsVal()
	params.MinimumStakeForValidators = zzN64("minStake")
	if sm.SetParamsVal(params) != nil {
		panic("params")
	}
	prior := zzN64("slashedEarlierInBlock")
	zzAssume(prior <= params.MaxSlashPerCommittee)
	if prior > 0 {
		sm.slashTracker.AddSlash(zzAddr(0), 1, prior)
	}
	pct := zzN64("percent")
	zzAssume(pct <= 100)
	v, e := sm.GetValidator(crypto.NewAddress(zzAddr(0)))
	if e != nil {
		panic("get validator")
	}
	nc := len(v.Committees)
	zzAssert("C12.slash2.returns-nil", sm.SlashValidator(v, 1, pct, params) == nil)
	extra := []uint64{10, 20}
	if w, e2 := sm.GetValidator(crypto.NewAddress(zzAddr(0))); e2 == nil {
		if len(w.Committees) < nc {
			zzReach("C12.slash2.ejected")
		}
		if w.UnstakingHeight != 0 {
			extra = append(extra, w.UnstakingHeight)
		}
	}
	zzHeights = extra
	zzInv12(sm, "C12.slash2", 1)
	zzNoWedge(sm, "C12.slash2")
	zzReach("C12.slash2.done")
}


// HandleMessageStake: a new validator or delegate (address 1) staked by account 2, next to an
// existing validator 0; also the attempt to stake an address that already exists. Validators must
// hold BLS keys (the handler type-asserts it), so key parsing yields a real BLS key object over an
// opaque curve point.
//
//zz:harness mode=int unwind=60 maxpaths=60000 timebudget=1500 param.committeeshapes=2
//zz:reach C12.stake.ok C12.stake.rejected C12.stake.done
func ZZ_C12_step_Stake() {
	zzRealBLS = true
	sm, _ := zzFSM(5)
	zzProtocol(sm, zzConcrete(zzInt("protocol"), 1, 2))
	_, bal := zzStakingWorldAcc(sm, 1)
	sup0, _ := sm.GetSupply()
	who := zzConcrete(zzInt("newAddress"), 0, 1) // 0 = already a validator, 1 = new
	msg := &MessageStake{PublicKey: zzAddr(who), Amount: zzN64("amount"), OutputAddress: zzAddr(2), Signer: zzAddr(2), Delegate: zzBool("asDelegate"), Compound: zzBool("compound")}
	switch zzConcrete(zzInt("newCommittees"), 0, 2) {
	case 0:
		msg.Committees = []uint64{1}
	case 1:
		msg.Committees = []uint64{1, 2}
	case 2:
		msg.Committees = []uint64{2, 1}
	}
	if !msg.Delegate {
		msg.NetAddress = "tcp://x"
	}
	err := sm.HandleMessageStake(msg)
	if err != nil {
		zzReach("C12.stake.rejected")
		a, _ := sm.GetAccountBalance(crypto.NewAddress(zzAddr(2)))
		sm.ResetCaches()
		_ = a
	} else {
		zzReach("C12.stake.ok")
		zzAssert("C12.stake.existing-address-is-refused", who == 1)
		v, e := sm.GetValidator(crypto.NewAddress(zzAddr(1)))
		zzAssert("C12.stake.record-written", e == nil)
		if e == nil {
			zzAssert("C12.stake.record-matches-message", v.StakedAmount == msg.Amount && v.Delegate == msg.Delegate && v.UnstakingHeight == 0 && v.MaxPausedHeight == 0)
		}
		a, _ := sm.GetAccountBalance(crypto.NewAddress(zzAddr(2)))
		zzAssert("C12.stake.signer-pays-exactly-the-stake", bal-a == msg.Amount && a <= bal)
		sup, _ := sm.GetSupply()
		zzAssert("C12.stake.total-supply-unchanged", sup.Total == sup0.Total)
		zzInv12(sm, "C12.stake", 2)
		zzNoWedge(sm, "C12.stake")
	}
	zzReach("C12.stake.done")
}


// Governance raises the minimum stake (UpdateParam -> ConformStateToParamUpdate): every validator
// now below the minimum is force-unstaked - once. A validator that is already unstaking (possibly
// finishing in this very block) keeps its single marker; paused ones lose the paused marker.
//
//zz:harness mode=int unwind=80 maxpaths=100000 timebudget=1800 param.committeeshapes=0
//zz:reach C12.minstake.done C12.minstake.forced
func ZZ_C12_step_RaiseMinimumStake() {
	sm, _ := zzFSM([]uint64{5, 10, 20}[zzConcrete(zzInt("height"), 0, 2)])
	zzProtocol(sm, zzConcrete(zzInt("protocol"), 1, 2))
	n := zzParam("vals", 2)
	vals := zzStakingWorld(sm, n)
	prev, err := sm.GetParams()
	if err != nil {
		panic("params")
	}
	cur, _ := sm.GetParamsVal()
	cur.MinimumStakeForValidators = zzN64("newMinValidators")
	cur.MinimumStakeForDelegates = zzN64("newMinDelegates")
	if sm.SetParamsVal(cur) != nil {
		panic("set params")
	}
	sm.ResetCaches()
	zzAssert("C12.minstake.returns-nil", sm.ConformStateToParamUpdate(prev) == nil)
	extra := []uint64{10, 20}
	for i := 0; i < n; i++ {
		v, e := sm.GetValidator(crypto.NewAddress(zzAddr(i)))
		zzAssert("C12.minstake.nobody-removed", e == nil)
		if e != nil {
			continue
		}
		if v.UnstakingHeight != 0 && vals[i].UnstakingHeight == 0 {
			zzReach("C12.minstake.forced")
			extra = append(extra, v.UnstakingHeight)
			zzAssert("C12.minstake.only-validators-below-the-new-minimum-are-forced", (v.Delegate && v.StakedAmount < cur.MinimumStakeForDelegates) || (!v.Delegate && v.StakedAmount < cur.MinimumStakeForValidators))
		}
		if vals[i].UnstakingHeight != 0 {
			zzAssert("C12.minstake.already-unstaking-keeps-its-height", v.UnstakingHeight == vals[i].UnstakingHeight)
		}
		zzAssert("C12.minstake.stake-untouched", v.StakedAmount == vals[i].StakedAmount)
	}
	zzHeights = extra
	zzInv12(sm, "C12.minstake", n)
	zzNoWedge(sm, "C12.minstake")
	zzReach("C12.minstake.done")
}

// Governance lowers MaxCommittees (ConformStateToParamUpdate): every validator / delegate listing
// more committees than the new maximum is trimmed immediately, in a pseudorandom rotation; the
// per-committee tallies and membership indexes must follow (UpdateCommittees / UpdateDelegations),
// nobody's stake or status moves, and the markers are untouched.
//
//zz:harness mode=int unwind=80 maxpaths=100000 timebudget=1800 param.committeeshapes=2 param.minprotocol@quick=2 param.minprotocol@thorough=1
//zz:reach C12.maxcommittees.done C12.maxcommittees.trimmed
func ZZ_C12_step_LowerMaxCommittees() {
	sm, _ := zzFSM(5)
	zzProtocol(sm, zzConcrete(zzInt("protocol"), zzParam("minprotocol", 1), 2))
	n := zzParam("vals", 2)
	vals := zzStakingWorld(sm, n)
	prev, err := sm.GetParams()
	if err != nil {
		panic("params")
	}
	cur, _ := sm.GetParamsVal()
	newMax := zzConcrete(zzInt("newMaxCommittees"), 0, 2)
	cur.MaxCommittees = uint64(newMax)
	if sm.SetParamsVal(cur) != nil {
		panic("set params")
	}
	sm.ResetCaches()
	zzAssert("C12.maxcommittees.returns-nil", sm.ConformStateToParamUpdate(prev) == nil)
	for i := 0; i < n; i++ {
		v, e := sm.GetValidator(crypto.NewAddress(zzAddr(i)))
		zzAssert("C12.maxcommittees.nobody-removed", e == nil)
		if e != nil {
			continue
		}
		zzAssert("C12.maxcommittees.within-the-new-maximum", len(v.Committees) <= newMax)
		if len(v.Committees) != len(vals[i].Committees) {
			zzReach("C12.maxcommittees.trimmed")
		} else {
			for j := range v.Committees {
				zzAssert("C12.maxcommittees.untrimmed-list-unchanged", v.Committees[j] == vals[i].Committees[j])
			}
		}
		for _, c := range v.Committees {
			was := false
			for _, o := range vals[i].Committees {
				was = was || o == c
			}
			zzAssert("C12.maxcommittees.kept-committees-were-listed-before", was)
		}
		zzAssert("C12.maxcommittees.stake-and-status-untouched", v.StakedAmount == vals[i].StakedAmount && v.UnstakingHeight == vals[i].UnstakingHeight && v.MaxPausedHeight == vals[i].MaxPausedHeight && v.Delegate == vals[i].Delegate)
		// membership indexes follow the record
		for _, c := range []uint64{1, 2} {
			listed := false
			for _, id := range v.Committees {
				listed = listed || id == c
			}
			addr := crypto.NewAddress(zzAddr(i))
			inC := zzHasKey(sm, KeyForCommittee(c, addr, v.StakedAmount))
			inD := zzHasKey(sm, KeyForDelegate(c, addr, v.StakedAmount))
			active := v.UnstakingHeight == 0 && v.MaxPausedHeight == 0
			_ = active
			zzAssert("C12.maxcommittees.no-index-entry-for-a-dropped-committee", listed || (!inC && !inD))
		}
	}
	zzInv12(sm, "C12.maxcommittees", n)
	zzNoWedge(sm, "C12.maxcommittees")
	zzReach("C12.maxcommittees.done")
}

var _ = lib.JoinLenPrefix
