package fsm

import (
	"github.com/canopy-network/canopy/lib"
	"github.com/canopy-network/canopy/lib/crypto"
)

// C12: staking bookkeeping (one inductive step) and no self-wedging.
// Pre-state: two validators built through the real genesis builder SetValidators - which writes
// the record, the committee/delegate indexes, the supply tallies and the unstaking / paused
// markers - with symbolic stake (64-bit, integer encoding), symbolic delegate flag, symbolic
// status taken from {active, paused until 20, unstaking until 10, unstaking until 20}.
// Invariant Inv12 (checked before and after one real operation):
//   supply.Staked = sum of stakes, supply.DelegatedOnly = sum of delegate stakes,
//   marker <-> record: an unstaking key (h,a) exists iff validator a exists with UnstakingHeight=h!=0,
//                      a paused key (h,a) exists iff validator a exists with MaxPausedHeight=h!=0.
// No-wedge obligation: from the post-state the end-block actions DeleteFinishedUnstaking and
// ForceUnstakeMaxPaused return nil at every height that carries a marker (EndBlock aborts the block
// on any error, so an error there means the chain cannot produce that block).

var zzHeights = []uint64{10, 20}

func zzValidator(i int) *Validator {
	v := &Validator{
		Address:      zzAddr(i),
		PublicKey:    zzAddr(i + 4),
		StakedAmount: zzN64("stake"),
		Committees:   []uint64{1},
		Output:       zzAddr(i),
		Delegate:     zzBool("delegate"),
	}
	switch zzConcrete(zzInt("status"), 0, 3) {
	case 1:
		v.MaxPausedHeight = 20
	case 2:
		v.UnstakingHeight = 10
	case 3:
		v.UnstakingHeight = 20
	}
	return v
}

func zzStakingWorld(sm *StateMachine, n int) []*Validator {
	var vals []*Validator
	var sum uint64
	for i := 0; i < n; i++ {
		v := zzValidator(i)
		zzAssume(v.StakedAmount >= 1 && sum+v.StakedAmount >= sum)
		sum += v.StakedAmount
		vals = append(vals, v)
	}
	supply := &Supply{}
	if err := sm.SetValidators(vals, supply); err != nil {
		panic("SetValidators: " + err.Error())
	}
	if err := sm.SetSupply(supply); err != nil {
		panic("SetSupply")
	}
	sm.ResetCaches()
	return vals
}

func zzHasKey(sm *StateMachine, k []byte) bool {
	bz, err := sm.Get(k)
	return err == nil && bz != nil
}

// zzInv12 asserts the invariant under obligation ids prefixed by tag.
func zzInv12(sm *StateMachine, tag string, n int) {
	sup, err := sm.GetSupply()
	zzAssert(tag+".supply-readable", err == nil)
	var staked, delegated uint64
	for i := 0; i < n; i++ {
		addr := crypto.NewAddress(zzAddr(i))
		exists, e := sm.GetValidatorExists(addr)
		zzAssert(tag+".validator-readable", e == nil)
		var v *Validator
		if exists {
			v, e = sm.GetValidator(addr)
			zzAssert(tag+".validator-readable", e == nil)
			staked += v.StakedAmount
			if v.Delegate {
				delegated += v.StakedAmount
			}
		}
		for _, h := range zzHeights {
			um := zzHasKey(sm, KeyForUnstaking(h, addr))
			pm := zzHasKey(sm, KeyForPaused(h, addr))
			zzAssert(tag+".unstaking-marker-iff-record", um == (exists && v.UnstakingHeight == h))
			zzAssert(tag+".paused-marker-iff-record", pm == (exists && v.MaxPausedHeight == h))
		}
		if exists {
			zzAssert(tag+".status-heights-known", (v.UnstakingHeight == 0 || v.UnstakingHeight == 10 || v.UnstakingHeight == 20) && (v.MaxPausedHeight == 0 || v.MaxPausedHeight == 20))
		}
	}
	zzAssert(tag+".staked-tally", sup.Staked == staked)
	zzAssert(tag+".delegated-tally", sup.DelegatedOnly == delegated)
}

// zzNoWedge: the deferred end-block actions succeed at every marker height.
func zzNoWedge(sm *StateMachine, tag string) {
	for _, h := range zzHeights {
		sm.height = h
		sm.ResetCaches()
		zzAssert(tag+".DeleteFinishedUnstaking-returns-nil", sm.DeleteFinishedUnstaking() == nil)
		zzAssert(tag+".ForceUnstakeMaxPaused-returns-nil", sm.ForceUnstakeMaxPaused() == nil)
	}
}

// base case + vacuity: the genesis builder establishes the invariant and the end-block actions work.
//
//zz:harness mode=int unwind=60 maxpaths=20000
//zz:reach C12.base.done
func ZZ_C12_base_state() {
	sm, _ := zzFSM(5)
	zzStakingWorld(sm, 2)
	zzInv12(sm, "C12.base", 2)
	zzNoWedge(sm, "C12.base")
	zzReach("C12.base.done")
}

// SlashValidator (double-sign / non-sign slashes): every percent 0..100 incl. rounding stake to 0.
//
//zz:harness mode=int unwind=60 maxpaths=20000
//zz:reach C12.slash.done
func ZZ_C12_step_SlashValidator() {
	sm, _ := zzFSM(5)
	vals := zzStakingWorld(sm, 1)
	params, err := sm.GetParamsVal()
	if err != nil {
		panic("params")
	}
	pct := zzN64("percent")
	zzAssume(pct <= 100)
	// slashes name committee members only (evidence and non-signer lists are built from committee
	// bitmaps); delegates are never slashed - stated precondition of this step
	zzAssume(!vals[0].Delegate)
	v, e := sm.GetValidator(crypto.NewAddress(vals[0].Address))
	if e != nil {
		panic("get validator")
	}
	serr := sm.SlashValidator(v, 1, pct, params)
	zzAssert("C12.slash.returns-nil", serr == nil)
	zzInv12(sm, "C12.slash", 1)
	zzNoWedge(sm, "C12.slash")
	zzReach("C12.slash.done")
}

var _ = lib.JoinLenPrefix
