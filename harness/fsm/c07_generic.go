package fsm

import (
	"context"

	"github.com/canopy-network/canopy/lib"
	"github.com/canopy-network/canopy/lib/crypto"
)

// C07 / G1: atomicity for an ARBITRARY handler. The send handler is replaced by a handler that does
// everything a real one may do before it fails - writes a store key, credits an account through the
// cache, records a slash in the slash tracker, emits an event - and then fails or succeeds by an
// arbitrary choice per transaction. Through the real ApplyTransactions / ApplyTransaction / TxnWrap:
// a transaction that fails leaves no store write, no cached balance, no tracker entry and NO EVENT
// behind (neither in the block results nor in the FSM's event tracker for the next transaction), and a
// successful one keeps all four.

//zz:stub (*github.com/canopy-network/canopy/fsm.StateMachine).HandleMessageSend harness zzArbitraryHandler

var zzHandlerCalls int
var zzHandlerFails []bool

func zzArbitraryHandler(s *StateMachine, msg *MessageSend) lib.ErrorI {
	i := zzHandlerCalls
	zzHandlerCalls++
	if s.Set([]byte{0xF0, byte(i)}, []byte{1}) != nil {
		panic("set")
	}
	if s.AccountAdd(crypto.NewAddress(msg.ToAddress), 5) != nil {
		panic("account add")
	}
	s.slashTracker.AddSlash(msg.ToAddress, 1, 3)
	if s.EventSlash(msg.ToAddress, uint64(100+i)) != nil {
		panic("event")
	}
	if i < len(zzHandlerFails) && zzHandlerFails[i] {
		return ErrInvalidAmount()
	}
	return nil
}

//zz:harness mode=int unwind=60 maxpaths=60000 timebudget=1200 replay=model
//zz:reach G1.done G1.failed-then-ok
func ZZ_C07_G1_arbitrary_handler_failure_leaves_no_trace() {
	var w zzWorldVals
	for i := range w.bal {
		w.bal[i] = 1000000000
	}
	sm, st := zzBuildWorld(w)
	zzHandlerCalls, zzHandlerFails = 0, []bool{zzBool("fail0"), zzBool("fail1")}
	s1 := zzTxSpec{from: 0, to: 1, signer: 0, amount: 1, fee: 10000, created: 10, time: 1, net: 1, chain: 1}
	s2 := zzTxSpec{from: 1, to: 2, signer: 1, amount: 1, fee: 10000, created: 10, time: 2, net: 1, chain: 1}
	r := &lib.ApplyBlockResults{}
	if sm.ApplyTransactions(context.Background(), [][]byte{zzSendTxBytes(s1), zzSendTxBytes(s2)}, r, false) != nil {
		return
	}
	okCount := 0
	for i := 0; i < 2; i++ {
		written, _ := st.Get([]byte{0xF0, byte(i)})
		if zzHandlerFails[i] {
			zzAssert("G1.failed-transaction-leaves-no-store-write", written == nil)
		} else {
			okCount++
			zzAssert("G1.successful-transaction-is-flushed", written != nil)
		}
	}
	zzAssert("G1.results-count", len(r.Results) == okCount && len(r.Failed) == 2-okCount)
	zzAssert("G1.block-events-are-those-of-successful-transactions-only", len(r.Events) == okCount)
	zzAssert("G1.event-tracker-is-empty-after-the-block", len(sm.events.Events) == 0)
	var wantSlash [3]uint64
	if !zzHandlerFails[0] {
		wantSlash[1] += 3
	}
	if !zzHandlerFails[1] {
		wantSlash[2] += 3
	}
	for i := 1; i <= 2; i++ {
		zzAssert("G1.slash-tracker-keeps-only-successful-transactions", sm.slashTracker.GetTotalSlashPercent(zzAddr(i), 1) == wantSlash[i])
	}
	if zzHandlerFails[0] && !zzHandlerFails[1] {
		zzReach("G1.failed-then-ok")
	}
	zzReach("G1.done")
}
