package fsm

import (
	"github.com/canopy-network/canopy/lib/crypto"
)

// C04: token supply conservation, one inductive step per operation (DESIGN §4 C04).
// Pre-state: symbolic balances/pool amounts/stakes at full 64-bit range (integer encoding),
// constrained only by the invariant  Supply.Total = sum(accounts) + sum(pools) + sum(stakes)  with
// no partial sum wrapping. The real handler runs with arbitrary arguments; afterwards the
// invariant must hold again with the allowed change of the total.

// zzWorld3: three accounts (one may be empty), the chain's reward pool, the DAO pool.
func zzWorld3(sm *StateMachine) (total uint64) {
	var sum uint64
	for i := 0; i < 3; i++ {
		amt := zzN64("bal")
		zzAssume(sum+amt >= sum)
		sum += amt
		if err := sm.SetAccount(&Account{Address: zzAddr(i), Amount: amt}); err != nil {
			panic("SetAccount")
		}
	}
	for _, id := range []uint64{1, 2} {
		amt := zzN64("pool")
		zzAssume(sum+amt >= sum)
		sum += amt
		if err := sm.SetPool(&Pool{Id: id, Amount: amt}); err != nil {
			panic("SetPool")
		}
	}
	if err := sm.SetSupply(&Supply{Total: sum}); err != nil {
		panic("SetSupply")
	}
	sm.ResetCaches()
	return sum
}

func zzCheckConserved(sm *StateMachine, tag string, before uint64, err error, delta int64) {
	sum, ok := zzSumWorld(sm)
	zzAssert("C04."+tag+".no-component-wraps", ok)
	if err == nil {
		sup, e := sm.GetSupply()
		zzAssert("C04."+tag+".supply-readable", e == nil)
		zzAssert("C04."+tag+".total-unchanged", sup.Total == before+uint64(delta))
		zzAssert("C04."+tag+".total-equals-sum", sum == sup.Total)
	}
}

//zz:harness mode=int unwind=60
//zz:reach C04.send.ok C04.send.err
func ZZ_C04_send() {
	sm, _ := zzFSM(10)
	total := zzWorld3(sm)
	to := zzConcrete(zzInt("to"), 0, 3) // 0..2 existing accounts (incl. self), 3 = a new address
	msg := &MessageSend{FromAddress: zzAddr(0), ToAddress: zzAddr(to), Amount: zzN64("amount")}
	err := sm.HandleMessageSend(msg)
	if err == nil {
		zzReach("C04.send.ok")
	} else {
		zzReach("C04.send.err")
	}
	zzCheckConserved(sm, "send", total, errOrNil(err), 0)
}

//zz:harness mode=int unwind=60
//zz:reach C04.fee.ok C04.fee.err
func ZZ_C04_deduct_fees() {
	sm, _ := zzFSM(10)
	total := zzWorld3(sm)
	err := sm.AccountDeductFees(crypto.NewAddress(zzAddr(0)), zzN64("fee"))
	if err == nil {
		zzReach("C04.fee.ok")
	} else {
		zzReach("C04.fee.err")
	}
	zzCheckConserved(sm, "fee", total, errOrNil(err), 0)
}
