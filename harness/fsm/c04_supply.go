package fsm

import (
	"context"

	"github.com/canopy-network/canopy/lib"
	"github.com/canopy-network/canopy/lib/crypto"
)

// C04: token supply conservation, one inductive step per operation (DESIGN §4 C04).
// Pre-state: symbolic balances/pool amounts/stakes at full 64-bit range (integer encoding),
// constrained only by the invariant  Supply.Total = sum(accounts) + sum(pools) + sum(stakes)  with
// no partial sum wrapping. The real handler runs with arbitrary arguments; afterwards the
// invariant must hold again with the allowed change of the total.

// zzWorld3: three accounts (one may be empty), the chain's reward pool, the DAO pool.
func zzWorld3(sm *StateMachine) (total uint64) {
	var sum uint64
	for i := 0; i < 3; i++ {
		amt := zzN64("bal")
		zzAssume(sum+amt >= sum)
		sum += amt
		if err := sm.SetAccount(&Account{Address: zzAddr(i), Amount: amt}); err != nil {
			panic("SetAccount")
		}
	}
	for _, id := range []uint64{1, 2} {
		amt := zzN64("pool")
		zzAssume(sum+amt >= sum)
		sum += amt
		if err := sm.SetPool(&Pool{Id: id, Amount: amt}); err != nil {
			panic("SetPool")
		}
	}
	if err := sm.SetSupply(&Supply{Total: sum}); err != nil {
		panic("SetSupply")
	}
	sm.ResetCaches()
	return sum
}

func zzCheckConserved(sm *StateMachine, tag string, before uint64, err error, delta int64) {
	sum, ok := zzSumWorld(sm)
	zzAssert("C04."+tag+".no-component-wraps", ok)
	if err == nil {
		sup, e := sm.GetSupply()
		zzAssert("C04."+tag+".supply-readable", e == nil)
		zzAssert("C04."+tag+".total-unchanged", sup.Total == before+uint64(delta))
		zzAssert("C04."+tag+".total-equals-sum", sum == sup.Total)
	}
}

//zz:harness mode=int unwind=60
//zz:reach C04.send.ok C04.send.err
func ZZ_C04_send() {
	sm, _ := zzFSM(10)
	total := zzWorld3(sm)
	to := zzConcrete(zzInt("to"), 0, 3) // 0..2 existing accounts (incl. self), 3 = a new address
	msg := &MessageSend{FromAddress: zzAddr(0), ToAddress: zzAddr(to), Amount: zzN64("amount")}
	err := sm.HandleMessageSend(msg)
	if err == nil {
		zzReach("C04.send.ok")
	} else {
		zzReach("C04.send.err")
	}
	zzCheckConserved(sm, "send", total, errOrNil(err), 0)
}

//zz:harness mode=int unwind=60
//zz:reach C04.fee.ok C04.fee.err
func ZZ_C04_deduct_fees() {
	sm, _ := zzFSM(10)
	total := zzWorld3(sm)
	err := sm.AccountDeductFees(crypto.NewAddress(zzAddr(0)), zzN64("fee"))
	if err == nil {
		zzReach("C04.fee.ok")
	} else {
		zzReach("C04.fee.err")
	}
	zzCheckConserved(sm, "fee", total, errOrNil(err), 0)
}

// Slash: burning a percentage of a validator's stake lowers the total by exactly the burned
// amount - also when the stake rounds down to zero and the validator record is deleted.
//
//zz:harness mode=int unwind=60
//zz:reach C04.slash.done
func ZZ_C04_slash_burn() {
	sm, _ := zzFSM(5)
	vals := zzStakingWorld(sm, 1)
	zzAssume(!vals[0].Delegate)
	sup0, _ := sm.GetSupply()
	before := sup0.Total
	sum0, ok0 := zzSumWorld(sm)
	zzAssume(ok0 && sum0 == before) // invariant on the pre-state (established by SetValidators)
	params, _ := sm.GetParamsVal()
	pct := zzN64("percent")
	zzAssume(pct <= 100)
	v, _ := sm.GetValidator(crypto.NewAddress(vals[0].Address))
	stake := v.StakedAmount
	err := sm.SlashValidator(v, 1, pct, params)
	zzAssert("C04.slash.returns-nil", err == nil)
	sm.ResetCaches()
	sum, ok := zzSumWorld(sm)
	sup, _ := sm.GetSupply()
	zzAssert("C04.slash.no-component-wraps", ok)
	zzAssert("C04.slash.total-equals-sum", sup.Total == sum)
	zzAssert("C04.slash.total-only-decreases-by-at-most-the-stake", sup.Total <= before && before-sup.Total <= stake)
	zzReach("C04.slash.done")
}

// A block of two send transactions (account 0 pays account 1, then account 1 pays account 2, any
// amounts and fees, so that the first may fail after its fee was deducted and the second runs on
// whatever the first left behind) conserves the supply: after ApplyTransactions the recorded total
// still equals the sum of what is actually stored.
//
//zz:harness mode=int unwind=60 maxpaths=60000 timebudget=1500 replay=model
//zz:reach C04.block.done C04.block.first-failed
func ZZ_C04_block_of_two_sends() {
	w := zzWorldValues()
	sm, _ := zzBuildWorld(w)
	sup0, _ := sm.GetSupply()
	s1 := zzTxSpec{from: 0, to: 1, signer: 0, amount: zzN64("t1.amount"), fee: zzN64("t1.fee"), created: 10, time: 1, net: 1, chain: 1}
	s2 := zzTxSpec{from: 1, to: 2, signer: 1, amount: zzN64("t2.amount"), fee: zzN64("t2.fee"), created: 10, time: 2, net: 1, chain: 1}
	r := &lib.ApplyBlockResults{}
	if sm.ApplyTransactions(context.Background(), [][]byte{zzSendTxBytes(s1), zzSendTxBytes(s2)}, r, false) != nil {
		return
	}
	if len(r.Failed) > 0 {
		zzReach("C04.block.first-failed")
	}
	sm.ResetCaches()
	sum, ok := zzSumWorld(sm)
	sup, _ := sm.GetSupply()
	zzAssert("C04.block.no-component-wraps", ok)
	zzAssert("C04.block.total-unchanged", sup.Total == sup0.Total)
	zzAssert("C04.block.total-equals-sum", sum == sup.Total)
	zzReach("C04.block.done")
}
