package fsm

import (
	"bytes"
	"context"

	"github.com/canopy-network/canopy/lib"
)

// C07: transaction atomicity inside a block. The real ApplyTransactions runs a block [t1, t2] of two
// send transactions whose every field is symbolic (sender, recipient, amount, fee, heights, ids)
// over a symbolic three-account world; a second, identical world runs the block [t2] alone.
// Obligation: whenever t1 is reported failed - at whatever step: fee deduction, the debit, the
// credit - the state after the block equals the state of the block without t1 (store contents,
// account/pool caches as seen through the getters), t2 has the same outcome in both runs, and the
// store the FSM ends on is the one it started on.
// Signatures are ideal (the signer's address is its key bytes, verification always succeeds): C07 is
// about rollback, C05 about who may sign.

//zz:stub (*github.com/canopy-network/canopy/lib/crypto.BatchVerifier).Add noop
//zz:stub (*github.com/canopy-network/canopy/lib/crypto.BatchVerifier).Verify noop

type zzWorldVals struct {
	bal  [3]uint64
	pool [2]uint64
}

func zzWorldValues() (w zzWorldVals) {
	var sum uint64
	for i := range w.bal {
		w.bal[i] = zzN64("bal")
		zzAssume(sum+w.bal[i] >= sum)
		sum += w.bal[i]
	}
	for i := range w.pool {
		w.pool[i] = zzN64("pool")
		zzAssume(sum+w.pool[i] >= sum)
		sum += w.pool[i]
	}
	return
}

func zzBuildWorld(w zzWorldVals) (*StateMachine, *zzStore) {
	sm, st := zzFSM(10)
	var sum uint64
	for i, b := range w.bal {
		sum += b
		if sm.SetAccount(&Account{Address: zzAddr(i), Amount: b}) != nil {
			panic("SetAccount")
		}
	}
	for i, p := range w.pool {
		sum += p
		if sm.SetPool(&Pool{Id: uint64(i + 1), Amount: p}) != nil {
			panic("SetPool")
		}
	}
	if sm.SetSupply(&Supply{Total: sum}) != nil {
		panic("SetSupply")
	}
	sm.ResetCaches()
	return sm, st
}

type zzTxSpec struct {
	from, to, signer          int
	amount, fee               uint64
	created, time, net, chain uint64
}

func zzSendSpec(name string) zzTxSpec {
	return zzTxSpec{
		from: zzConcrete(zzInt(name+".from"), 0, 2), to: zzConcrete(zzInt(name+".to"), 0, 2), signer: zzConcrete(zzInt(name+".signer"), 0, 2),
		amount: zzN64(name + ".amount"), fee: zzN64(name + ".fee"),
		created: zzU64(name + ".created"), time: zzU64(name + ".time"), net: zzU64(name + ".net"), chain: zzU64(name + ".chain"),
	}
}

func zzSendTxBytes(s zzTxSpec) []byte {
	any, err := lib.NewAny(&MessageSend{FromAddress: zzAddr(s.from), ToAddress: zzAddr(s.to), Amount: s.amount})
	if err != nil {
		panic("NewAny")
	}
	tx := &lib.Transaction{MessageType: MessageSendName, Msg: any, Signature: &lib.Signature{PublicKey: zzAddr(s.signer), Signature: []byte{1}},
		CreatedHeight: s.created, Time: s.time, Fee: s.fee, NetworkId: s.net, ChainId: s.chain}
	bz, e := lib.Marshal(tx)
	if e != nil {
		panic("Marshal")
	}
	return bz
}

func zzBalances(sm *StateMachine) (out [5]uint64) {
	for i := 0; i < 3; i++ {
		out[i], _ = sm.GetAccountBalance(zzCryptoAddr(i))
	}
	out[3], _ = sm.GetPoolBalance(1)
	out[4], _ = sm.GetPoolBalance(2)
	return
}

//zz:harness mode=int unwind=60 maxpaths=40000 timebudget=1500
//zz:reach C07.t1-failed C07.t1-ok
func ZZ_C07_failed_tx_leaves_no_trace() {
	w := zzWorldValues()
	s1, s2 := zzSendSpec("t1"), zzSendSpec("t2")
	// run 1: block [t1, t2]
	smA, stA := zzBuildWorld(w)
	t1, t2 := zzSendTxBytes(s1), zzSendTxBytes(s2)
	rA := &lib.ApplyBlockResults{}
	errA := smA.ApplyTransactions(context.Background(), [][]byte{t1, t2}, rA, false)
	// run 2: block [t2] on an identical world
	smB, stB := zzBuildWorld(w)
	rB := &lib.ApplyBlockResults{}
	errB := smB.ApplyTransactions(context.Background(), [][]byte{zzSendTxBytes(s2)}, rB, false)
	if errA != nil || errB != nil {
		return // the whole block is rejected (duplicate / oversize): block-level rollback is the caller's Reset
	}
	zzAssert("C07.fsm-back-on-original-store", smA.store == lib.RWStoreI(stA) && smB.store == lib.RWStoreI(stB))
	// t1 failed  <=>  it is not the first included transaction
	t1Failed := !(len(rA.Txs) > 0 && bytes.Equal(rA.Txs[0], t1))
	if t1Failed {
		zzReach("C07.t1-failed")
		zzAssert("C07.state-equals-block-without-t1", zzSameKV(stA, stB))
		zzAssert("C07.balances-equal-block-without-t1", zzBalances(smA) == zzBalances(smB))
		zzAssert("C07.t2-same-outcome", len(rA.Results) == len(rB.Results) && len(rA.Failed) == len(rB.Failed)+1)
		_ = t2
		zzAssert("C07.no-events-leak", len(rA.Events) == len(rB.Events))
	} else {
		zzReach("C07.t1-ok")
	}
}
