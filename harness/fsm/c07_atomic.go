package fsm

import (
	"bytes"
	"context"

	"github.com/canopy-network/canopy/lib"
	"github.com/canopy-network/canopy/lib/crypto"
)

// C07: transaction atomicity inside a block. The real ApplyTransactions runs a block [t1, t2] of two
// send transactions whose every field is symbolic (sender, recipient, amount, fee, heights, ids)
// over a symbolic three-account world; a second, identical world runs the block [t2] alone.
// Obligation: whenever t1 is reported failed - at whatever step: fee deduction, the debit, the
// credit - the state after the block equals the state of the block without t1 (store contents,
// account/pool caches as seen through the getters), t2 has the same outcome in both runs, and the
// store the FSM ends on is the one it started on.
// Signatures are ideal (the signer's address is its key bytes, verification always succeeds): C07 is
// about rollback, C05 about who may sign.

//zz:stub (*github.com/canopy-network/canopy/lib/crypto.BatchVerifier).Add harness zzBatchAdd
//zz:stub (*github.com/canopy-network/canopy/lib/crypto.BatchVerifier).Verify harness zzBatchVerify
//zz:stub (*github.com/canopy-network/canopy/lib/crypto.BatchVerifier).Count harness zzBatchCount
//zz:stub github.com/canopy-network/canopy/lib/crypto.NewBatchVerifier harness zzNewBatch

type zzWorldVals struct {
	bal  [3]uint64
	pool [2]uint64
}

// The batch signature verifier under ideal signatures: Add queues (key, message, signature) on the
// verifier it is called on (a no-op verifier queues nothing), Count is the queue length and Verify
// reports the queue positions whose signature was not genuinely produced by the key's owner over
// exactly that message. Convention of the fsm harnesses: such a genuine signature is the byte 0x01.
type zzBatchItem struct{ pk, msg, sig []byte }
type zzBatchState struct {
	noOp  bool
	items []zzBatchItem
}

var zzBatches = map[*crypto.BatchVerifier]*zzBatchState{}
var zzBatchQueue []zzBatchItem // everything queued on any verifier, in order (C05 A1)

func zzBatchOf(b *crypto.BatchVerifier) *zzBatchState {
	st := zzBatches[b]
	if st == nil {
		st = &zzBatchState{}
		zzBatches[b] = st
	}
	return st
}
func zzNewBatch(noOp ...bool) *crypto.BatchVerifier {
	b := &crypto.BatchVerifier{}
	zzBatchOf(b).noOp = noOp != nil
	return b
}
func zzBatchAdd(b *crypto.BatchVerifier, pk crypto.PublicKeyI, pkBytes, msg, sig []byte) error {
	st := zzBatchOf(b)
	if st.noOp {
		return nil
	}
	st.items = append(st.items, zzBatchItem{pkBytes, msg, sig})
	zzBatchQueue = append(zzBatchQueue, zzBatchItem{pkBytes, msg, sig})
	return nil
}
func zzBatchCount(b *crypto.BatchVerifier) int { return len(zzBatchOf(b).items) }
func zzBatchVerify(b *crypto.BatchVerifier) (bad []int) {
	for j, it := range zzBatchOf(b).items {
		if !(len(it.sig) == 1 && it.sig[0] == 1) {
			bad = append(bad, j)
		}
	}
	return
}

func zzWorldValues() (w zzWorldVals) {
	var sum uint64
	for i := range w.bal {
		w.bal[i] = zzN64("bal")
		zzAssume(sum+w.bal[i] >= sum)
		sum += w.bal[i]
	}
	for i := range w.pool {
		w.pool[i] = zzN64("pool")
		zzAssume(sum+w.pool[i] >= sum)
		sum += w.pool[i]
	}
	return
}

func zzBuildWorld(w zzWorldVals) (*StateMachine, *zzStore) {
	sm, st := zzFSM(10)
	var sum uint64
	for i, b := range w.bal {
		sum += b
		if sm.SetAccount(&Account{Address: zzAddr(i), Amount: b}) != nil {
			panic("SetAccount")
		}
	}
	for i, p := range w.pool {
		sum += p
		if sm.SetPool(&Pool{Id: uint64(i + 1), Amount: p}) != nil {
			panic("SetPool")
		}
	}
	if sm.SetSupply(&Supply{Total: sum}) != nil {
		panic("SetSupply")
	}
	sm.ResetCaches()
	return sm, st
}

type zzTxSpec struct {
	badSig                    bool // the signature was NOT produced by the signer's key over this content
	from, to, signer          int
	amount, fee               uint64
	created, time, net, chain uint64
}

// zzValidEnvelopeSpec: sender/recipient/amount/fee symbolic, the envelope (network, chain, created
// height, time, signer = sender) valid - C06 and C05 quantify over the envelope, C07 over the money.
func zzValidEnvelopeSpec(name string) zzTxSpec {
	from := zzConcrete(zzInt(name+".from"), 0, 2)
	if zzParam("fixparties", 0) == 1 {
		// reduced bound: account 0 pays account 0 (itself), 1 or 2
		zzAssume(from == 0)
	}
	return zzTxSpec{from: from, to: zzConcrete(zzInt(name+".to"), 0, 2), signer: from,
		amount: zzN64(name + ".amount"), fee: zzN64(name + ".fee"), created: 10, time: 1, net: 1, chain: 1}
}

func zzSendSpec(name string) zzTxSpec {
	return zzTxSpec{
		from: zzConcrete(zzInt(name+".from"), 0, 2), to: zzConcrete(zzInt(name+".to"), 0, 2), signer: zzConcrete(zzInt(name+".signer"), 0, 2),
		amount: zzN64(name + ".amount"), fee: zzN64(name + ".fee"),
		created: zzU64(name + ".created"), time: zzU64(name + ".time"), net: zzU64(name + ".net"), chain: zzU64(name + ".chain"),
	}
}

func zzSendTxBytes(s zzTxSpec) []byte {
	any, err := lib.NewAny(&MessageSend{FromAddress: zzAddr(s.from), ToAddress: zzAddr(s.to), Amount: s.amount})
	if err != nil {
		panic("NewAny")
	}
	tx := &lib.Transaction{MessageType: MessageSendName, Msg: any, Signature: &lib.Signature{PublicKey: zzAddr(s.signer), Signature: []byte{zzSigByte(s.badSig)}},
		CreatedHeight: s.created, Time: s.time, Fee: s.fee, NetworkId: s.net, ChainId: s.chain}
	bz, e := lib.Marshal(tx)
	if e != nil {
		panic("Marshal")
	}
	return bz
}

func zzSigByte(bad bool) byte {
	if bad {
		return 2
	}
	return 1
}

func zzBalances(sm *StateMachine) (out [5]uint64) {
	for i := 0; i < 3; i++ {
		out[i], _ = sm.GetAccountBalance(zzCryptoAddr(i))
	}
	out[3], _ = sm.GetPoolBalance(1)
	out[4], _ = sm.GetPoolBalance(2)
	return
}

//zz:harness mode=int unwind=60 maxpaths=200000 timebudget=7200 tier=thorough replay=model
//zz:reach C07.t1-failed C07.t1-ok
func ZZ_C07_failed_tx_leaves_no_trace() {
	w := zzWorldValues()
	s1, s2 := zzValidEnvelopeSpec("t1"), zzValidEnvelopeSpec("t2")
	// bound: t1 has any sender and recipient, t2 any sender paying its successor (27 party layouts)
	zzAssume(s2.to == (s2.from+1)%3)
	// run 1: block [t1, t2]
	smA, stA := zzBuildWorld(w)
	t1, t2 := zzSendTxBytes(s1), zzSendTxBytes(s2)
	rA := &lib.ApplyBlockResults{}
	errA := smA.ApplyTransactions(context.Background(), [][]byte{t1, t2}, rA, false)
	// run 2: block [t2] on an identical world
	smB, stB := zzBuildWorld(w)
	rB := &lib.ApplyBlockResults{}
	errB := smB.ApplyTransactions(context.Background(), [][]byte{zzSendTxBytes(s2)}, rB, false)
	if errA != nil || errB != nil {
		return // the whole block is rejected (duplicate / oversize): block-level rollback is the caller's Reset
	}
	zzAssert("C07.fsm-back-on-original-store", smA.store == lib.RWStoreI(stA) && smB.store == lib.RWStoreI(stB))
	// t1 failed  <=>  it is not the first included transaction
	t1Failed := !(len(rA.Txs) > 0 && bytes.Equal(rA.Txs[0], t1))
	if t1Failed {
		zzReach("C07.t1-failed")
		zzAssert("C07.state-equals-block-without-t1", zzSameKV(stA, stB))
		zzAssert("C07.balances-equal-block-without-t1", zzBalances(smA) == zzBalances(smB))
		zzAssert("C07.t2-same-outcome", len(rA.Results) == len(rB.Results) && len(rA.Failed) == len(rB.Failed)+1)
		_ = t2
		zzAssert("C07.no-events-leak", len(rA.Events) == len(rB.Events))
	} else {
		zzReach("C07.t1-ok")
	}
}

// Single transaction: a failed transaction - whatever step fails: the checks, fee deduction, the
// debit, the credit - leaves the store byte-for-byte as it was, the balances seen through the
// caches unchanged, no events, and the FSM back on its original store; a successful one is flushed.
//
//zz:harness mode=int unwind=60 maxpaths=60000 timebudget=1200 replay=model
//zz:reach C07.single.failed C07.single.ok
func ZZ_C07_single_failed_tx_rolls_back() {
	w := zzWorldValues()
	sm, st := zzBuildWorld(w)
	snapshot := &zzStore{}
	snapshot.kv = append(snapshot.kv, st.kv...)
	before := zzBalances(sm)
	t1 := zzSendTxBytes(zzValidEnvelopeSpec("t1"))
	r := &lib.ApplyBlockResults{}
	if sm.ApplyTransactions(context.Background(), [][]byte{t1}, r, false) != nil {
		return
	}
	zzAssert("C07.single.fsm-back-on-original-store", sm.store == lib.RWStoreI(st))
	if len(r.Failed) == 1 {
		zzReach("C07.single.failed")
		zzAssert("C07.single.store-unchanged", zzSameKV(st, snapshot))
		zzAssert("C07.single.cached-balances-unchanged", zzBalances(sm) == before)
		zzAssert("C07.single.no-events", len(r.Events) == 0 && len(r.Results) == 0)
		sm.ResetCaches()
		zzAssert("C07.single.stored-balances-unchanged", zzBalances(sm) == before)
	} else {
		zzReach("C07.single.ok")
		zzAssert("C07.single.one-result", len(r.Results) == 1)
		cached := zzBalances(sm)
		sm.ResetCaches()
		zzAssert("C07.single.cache-agrees-with-store", zzBalances(sm) == cached)
	}
}

// C07 / R1: the slash-tracker snapshot taken before a transaction (SlashTracker.Clone, restored by
// ApplyTransactions when the transaction fails) is independent of the live tracker: slashes recorded
// after the snapshot - for validators that already had an entry as well as for new ones - do not
// show through it.
//
//zz:harness mode=int unwind=40
//zz:reach C07.R1.done
func ZZ_C07_R1_slash_tracker_snapshot_is_deep() {
	tr := NewSlashTracker()
	p0, p1 := zzN64("before0"), zzN64("before1")
	zzAssume(p0 <= 100 && p1 <= 100)
	if zzBool("entry0") {
		tr.AddSlash(zzAddr(0), 1, p0)
	}
	if zzBool("entry0b") {
		tr.AddSlash(zzAddr(0), 2, p1)
	}
	a0, a0b, a1 := tr.GetTotalSlashPercent(zzAddr(0), 1), tr.GetTotalSlashPercent(zzAddr(0), 2), tr.GetTotalSlashPercent(zzAddr(1), 1)
	snap := tr.Clone()
	q := zzN64("during")
	zzAssume(q >= 1 && q <= 100)
	tr.AddSlash(zzAddr(0), 1, q)
	tr.AddSlash(zzAddr(0), 2, q)
	tr.AddSlash(zzAddr(1), 1, q)
	zzAssert("C07.R1.snapshot-keeps-existing-entry", snap.GetTotalSlashPercent(zzAddr(0), 1) == a0)
	zzAssert("C07.R1.snapshot-keeps-other-committee-entry", snap.GetTotalSlashPercent(zzAddr(0), 2) == a0b)
	zzAssert("C07.R1.snapshot-has-no-new-entry", snap.GetTotalSlashPercent(zzAddr(1), 1) == a1)
	zzAssert("C07.R1.live-tracker-advanced", tr.GetTotalSlashPercent(zzAddr(0), 1) == a0+q)
	zzReach("C07.R1.done")
}

// C07 / O1: block building with more transactions than fit (allowOversize = true, the proposer's
// mempool path). Transactions beyond the size limit are executed on a throw-away layer - so that the
// mempool learns their results - and that layer is dropped when ApplyTransactions returns. Whatever
// they did must be gone with it: afterwards the balances seen through the FSM's caches are exactly
// the stored ones, otherwise the end-block logic of the block being built (reward distribution,
// fee pool) computes with effects of transactions that are NOT in the block and the proposer's
// state root differs from every validator's.
//
//zz:harness mode=int unwind=60 maxpaths=100000 timebudget=1500 replay=model
//zz:reach C07.O1.oversized C07.O1.done
func ZZ_C07_O1_oversize_transactions_leave_no_trace() {
	w := zzWorldValues()
	sm, st := zzBuildWorld(w)
	ref, stRef := zzBuildWorld(w)
	// t1 and t3 are plain payments, t2 has arbitrary amount and fee (it may fail in any way); all
	// balances are arbitrary, and so are the sizes that decide where the block limit falls
	s1 := zzTxSpec{from: 0, to: 1, signer: 0, amount: 1, fee: 10000, created: 10, time: 1, net: 1, chain: 1}
	s2 := zzTxSpec{from: 1, to: 2, signer: 1, amount: zzN64("t2.amount"), fee: zzN64("t2.fee"), created: 10, time: 2, net: 1, chain: 1}
	s3 := zzTxSpec{from: 2, to: 0, signer: 2, amount: 77, fee: 10000, created: 10, time: 3, net: 1, chain: 1}
	txs := [][]byte{zzSendTxBytes(s1), zzSendTxBytes(s2), zzSendTxBytes(s3)}
	r := &lib.ApplyBlockResults{}
	if sm.ApplyTransactions(context.Background(), txs, r, true) != nil {
		return
	}
	zzAssert("C07.O1.fsm-back-on-original-store", sm.store == lib.RWStoreI(st))
	if len(r.Oversized) > 0 {
		zzReach("C07.O1.oversized")
	}
	cached := zzBalances(sm)
	sm.ResetCaches()
	stored := zzBalances(sm)
	zzAssert("C07.O1.caches-agree-with-the-store-after-the-call", cached == stored)
	// the stored state is exactly what the transactions that are IN the block produce
	rr := &lib.ApplyBlockResults{}
	if ref.ApplyTransactions(context.Background(), r.Txs, rr, false) == nil && len(rr.Failed) == 0 {
		ref.ResetCaches()
		zzAssert("C07.O1.state-is-that-of-the-included-transactions-only", zzBalances(ref) == stored && zzSameKV(st, stRef))
	}
	zzReach("C07.O1.done")
}
