package bft

import (
	"github.com/canopy-network/canopy/lib"
)

// C15 / P1, P4 and C01 / L1, C13(v): arithmetic of voting power in the real code, integer encoding
// at full 64-bit range (total power < 2^63 is a stated assumption; see the overflow obligation).

//zz:stub github.com/canopy-network/canopy/lib/crypto.BytesToBLS12381Point noop
//zz:stub github.com/canopy-network/canopy/lib/crypto.NewMultiBLSFromPoints noop

func zzPowers(n int) (ps []uint64, total uint64) {
	for i := 0; i < n; i++ {
		p := zzN64("power")
		zzAssume(p < 1<<62)
		zzAssume(total+p < 1<<62) // stated bound: total committee power < 2^62
		total += p
		ps = append(ps, p)
	}
	return
}

// C13(v) / L1-threshold: NewValidatorSet computes TotalPower = sum and MinimumMaj23 = floor(2T/3)+1.
//
//zz:harness mode=int unwind=40 param.n@thorough=6
//zz:reach VS.done
func ZZ_C13_V5_threshold() {
	n := zzParam("n", 4)
	ps, total := zzPowers(n)
	zzAssume(total > 0)
	vs := zzValSet(ps)
	zzAssert("V5.total-power-is-sum", vs.TotalPower == total)
	zzAssert("V5.threshold-floor-2T/3-plus-1", vs.MinimumMaj23 == 2*total/3+1)
	zzAssert("V5.threshold-above-two-thirds", 3*vs.MinimumMaj23 > 2*total)
	zzAssert("V5.threshold-reachable", vs.MinimumMaj23 <= total)
	zzAssert("V5.count", vs.NumValidators == uint64(n))
	zzReach("VS.done")
}

// L1 quorum intersection: two signer sets that each reach MinimumMaj23 overlap in validators that
// together hold more than 1/3 of the power (so the overlap cannot consist of Byzantine nodes only).
//
//zz:harness mode=int unwind=40 param.n@thorough=6
//zz:reach L1.done
func ZZ_C01_L1_quorum_intersection() {
	n := zzParam("n", 4)
	ps, total := zzPowers(n)
	zzAssume(total > 0)
	vs := zzValSet(ps)
	var a, b, both uint64
	for i := 0; i < n; i++ {
		inA, inB := zzBool("inA"), zzBool("inB")
		if inA {
			a += ps[i]
		}
		if inB {
			b += ps[i]
		}
		if inA && inB {
			both += ps[i]
		}
	}
	if a >= vs.MinimumMaj23 && b >= vs.MinimumMaj23 {
		zzReach("L1.done")
		zzAssert("L1.overlap-exceeds-one-third", 3*both > total)
	}
}

// P1: the pacemaker only jumps to a round that validators holding at least 1/3 of the power
// claim to have reached - strictly more than any coalition of Byzantine validators (< 1/3) can
// muster, so some correct validator really is at that round.
//
//zz:harness mode=int unwind=60 param.n@thorough=5
//zz:reach P1.jump P1.stay
func ZZ_C15_P1_pacemaker_needs_one_third() {
	n := zzParam("n", 4)
	ps, total := zzPowers(n)
	for _, p := range ps {
		zzAssume(p >= 1) // committee members have a positive stake
	}
	zzAssume(total < 1<<56) // stated bound: total power < 2^56 (headroom for percentage arithmetic)
	vs := zzValSet(ps)
	own := zzU64("ownRound")
	zzAssume(own < 1<<40)
	ctl := &zzCtl{valSet: vs}
	b := &BFT{View: &lib.View{Round: own}, ValidatorSet: vs, Controller: ctl, log: zzLog{}, PacemakerMessages: PacemakerMessages{}}
	rounds := make([]uint64, n)
	present := make([]bool, n)
	for i := 0; i < n; i++ {
		present[i] = zzBool("present")
		rounds[i] = zzU64("claimedRound")
		if present[i] {
			b.PacemakerMessages[string(zzPub(i))] = &Message{
				Qc:        &QC{Header: &lib.View{Round: rounds[i]}},
				Signature: &lib.Signature{PublicKey: zzPub(i)},
			}
		}
	}
	b.Pacemaker()
	zzAssert("P1.round-advances", b.Round >= own+1)
	if b.Round > own+1 {
		zzReach("P1.jump")
		var claimed uint64
		for i := 0; i < n; i++ {
			if present[i] && rounds[i] >= b.Round {
				claimed += ps[i]
			}
		}
		zzAssert("P1.jump-backed-by-one-third", 3*claimed > total)
	} else {
		zzReach("P1.stay")
	}
}

// P1b: the same statement when the claims arrive through the real AddPacemakerMessage, in any order
// and with repeats: a validator that sends several (different) claims is still one validator - only
// its latest claim counts, and its power is counted once.
//
//zz:harness mode=int unwind=60 maxpaths=60000 timebudget=900 param.messages@thorough=5
//zz:reach P1b.jump P1b.stay
func ZZ_C15_P1b_pacemaker_counts_each_validator_once() {
	n := zzParam("n", 3)
	ps, total := zzPowers(n)
	for _, p := range ps {
		zzAssume(p >= 1)
	}
	zzAssume(total < 1<<56)
	vs := zzValSet(ps)
	own := zzU64("ownRound")
	zzAssume(own < 1<<40)
	ctl := &zzCtl{valSet: vs}
	b := &BFT{View: &lib.View{Round: own}, ValidatorSet: vs, Controller: ctl, log: zzLog{}, PacemakerMessages: PacemakerMessages{}}
	latest := make([]uint64, n)
	present := make([]bool, n)
	k := zzParam("messages", 4)
	for j := 0; j < k; j++ {
		who := zzConcrete(zzInt("sender"), 0, n-1)
		r := zzU64("claimedRound")
		latest[who], present[who] = r, true
		err := b.AddPacemakerMessage(&Message{Qc: &QC{Header: &lib.View{Round: r}}, Signature: &lib.Signature{PublicKey: zzPub(who)}})
		zzAssert("P1b.add-returns-nil", err == nil)
	}
	b.Pacemaker()
	zzAssert("P1b.round-advances", b.Round >= own+1)
	if b.Round > own+1 {
		zzReach("P1b.jump")
		var claimed uint64
		for i := 0; i < n; i++ {
			if present[i] && latest[i] >= b.Round {
				claimed += ps[i]
			}
		}
		zzAssert("P1b.jump-backed-by-more-than-one-third-of-distinct-validators", 3*claimed > total)
	} else {
		zzReach("P1b.stay")
	}
}

// P4: timeouts grow with the round and do not wrap (rounds < 2^20, configured timeouts < 2^20 ms;
// beyond roughly 2^63 ns the Duration product wraps - outside the claim).
//
//zz:harness mode=int unwind=20
//zz:reach P4.done
func ZZ_C15_P4_timeouts_grow() {
	b := &BFT{log: zzLog{}}
	ms := zzNInt("timeoutMS")
	r := zzN64("round")
	zzAssume(ms > 0 && ms < 1<<20 && r < 1<<20) // stated bound: timeouts < 2^20 ms (17 min), rounds < 2^20
	w0, w1 := b.waitTime(ms, r), b.waitTime(ms, r+1)
	zzAssert("P4.positive", w0 > 0)
	zzAssert("P4.strictly-growing", w1 > w0)
	zzReach("P4.done")
}
