package bft

import (
	"bytes"

	"github.com/canopy-network/canopy/lib"
)

// C14 / V1: a proposer's slash list is only accepted if every (validator, height) pair in it is
// backed by the evidence. The real ValidateByzantineEvidence against an arbitrary locally derived
// double-signer list (what ProcessDSE returns for the attached evidence: up to two entries, ids from
// a set of three keys, up to two heights each, all symbolic) and an arbitrary claimed list of the
// same shape: accepted => each claimed pair (id, height) occurs in the derived list under THAT id -
// proven facts cannot be re-paired (X's height given to Y), heights cannot be invented, unknown ids
// are refused. (ProcessDSE itself is the subject of the ZZ_C14_honest_validator harness.)

//zz:stub (*github.com/canopy-network/canopy/bft.BFT).ProcessDSE harness zzDerivedDoubleSigners

var zzDerived []*lib.DoubleSigner

func zzDerivedDoubleSigners(b *BFT, dse ...*DoubleSignEvidence) ([]*lib.DoubleSigner, lib.ErrorI) {
	return zzDerived, nil
}

func zzDSList(name string) []*lib.DoubleSigner {
	var out []*lib.DoubleSigner
	n := zzConcrete(zzInt(name+".entries"), 0, 2)
	for i := 0; i < n; i++ {
		ds := &lib.DoubleSigner{Id: zzPub(zzConcrete(zzInt(name+".who"), 0, 2))}
		for j, k := 0, zzConcrete(zzInt(name+".heights"), 1, 2); j < k; j++ {
			ds.Heights = append(ds.Heights, zzU64(name+".h"))
		}
		out = append(out, ds)
	}
	return out
}

//zz:harness unwind=60 maxpaths=100000 timebudget=1200 replay=model
//zz:reach V1.accepted V1.rejected
func ZZ_C14_V1_slash_list_backed_by_evidence() {
	b := &BFT{View: &lib.View{}, Controller: &zzCtl{}, log: zzLog{}}
	zzDerived = zzDSList("derived")
	claimed := zzDSList("claimed")
	err := b.ValidateByzantineEvidence(&lib.SlashRecipients{DoubleSigners: claimed}, &ByzantineEvidence{DSE: DoubleSignEvidences{}})
	if err != nil {
		zzReach("V1.rejected")
		return
	}
	zzReach("V1.accepted")
	for _, c := range claimed {
		for _, h := range c.Heights {
			backed := false
			for _, d := range zzDerived {
				if bytes.Equal(d.Id, c.Id) {
					for _, dh := range d.Heights {
						backed = zzOr(backed, dh == h)
					}
				}
			}
			zzAssert("V1.every-claimed-pair-is-backed-by-evidence-for-that-validator", backed)
		}
	}
}
