package bft

import (
	"github.com/canopy-network/canopy/lib"
)

// C02 (signature layer, stateful): certificates are checked one after another by a long-running
// node, so an earlier verification must not make a later, different claim pass ("replay of old
// certificates"). Two aggregate signatures - arbitrary bitmaps and signature bytes, possibly the
// same signature bytes under another bitmap - are checked in sequence through the real
// lib.AggregateSignature.Check -> MultiKey.Copy / SetBitmap / the REAL
// BLS12381MultiPublicKey.VerifyBytes (only the kyber pairing check inside it is the ideal
// functionality) -> GetSigners. Each accepted check, the second as well as the first:
//   every signer enabled in ITS bitmap honestly signed ITS payload (or is Byzantine), and it is
//   reported as a full (non-partial) certificate only if its signers hold >= MinimumMaj23.

type zzPayload struct{ b []byte }

func (p zzPayload) SignBytes() []byte { return p.b }

//zz:harness unwind=60 maxpaths=60000 timebudget=900 replay=model param.n@thorough=4
//zz:reach AS.first-accepted AS.second-accepted AS.second-full
func ZZ_C02_aggregate_signature_checks_in_sequence() {
	n := zzParam("n", 3)
	ps := make([]uint64, n)
	for i := range ps {
		ps[i] = uint64(zzU32("power")) + 1
	}
	vs := zzValSet(ps)
	pay := [][]byte{zzBytes("payload0", 4), zzBytes("payload1", 4)}
	zzTruth = zzTruthT{n: n, payloads: pay, signed: [][]bool{make([]bool, n), make([]bool, n)}, byz: make([]bool, n)}
	for i := 0; i < n; i++ {
		zzTruth.signed[0][i], zzTruth.signed[1][i], zzTruth.byz[i] = zzBool("signed0"), zzBool("signed1"), zzBool("byz")
	}
	sigBytes := zzBytes("sig", 2)
	for k := 0; k < 2; k++ {
		bitmap := zzBytes("bitmap", (n+7)/8)
		msg := pay[zzConcrete(zzInt("which"), 0, 1)]
		sig := make([]byte, 96)
		copy(sig, sigBytes) // the same signature bytes may be presented twice
		if zzBool("otherSig") {
			sig[0] ^= 0x80
		}
		as := &lib.AggregateSignature{Signature: sig, Bitmap: bitmap}
		partial, err := as.Check(zzPayload{msg}, vs)
		if err != nil {
			continue
		}
		if k == 0 {
			zzReach("AS.first-accepted")
		} else {
			zzReach("AS.second-accepted")
		}
		var power uint64
		genuine := true
		for i := 0; i < n; i++ {
			if bitmap[i/8]&(1<<(uint(i)&7)) != 0 {
				power += ps[i]
				s := zzTruth.byz[i]
				for p := range pay {
					s = zzOr(s, zzAnd(zzTruth.signed[p][i], bytesEq4(pay[p], msg)))
				}
				genuine = zzAnd(genuine, s)
			}
		}
		zzAssert("AS.every-enabled-signer-signed-this-payload", genuine)
		if !partial {
			if k == 1 {
				zzReach("AS.second-full")
			}
			zzAssert("AS.full-certificate-has-two-thirds", power >= vs.MinimumMaj23)
		}
	}
}

func bytesEq4(a, b []byte) bool {
	eq := len(a) == len(b)
	for i := range a {
		if i < len(b) {
			eq = zzAnd(eq, a[i] == b[i])
		}
	}
	return eq
}
