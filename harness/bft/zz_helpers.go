package bft

import "github.com/canopy-network/canopy/lib"

// zzLog: a LoggerI that does nothing (logging must not influence consensus state; if it did, the
// engine would show a state difference).
type zzLog struct{}

func (zzLog) Debug(string)          {}
func (zzLog) Info(string)           {}
func (zzLog) Warn(string)           {}
func (zzLog) Error(string)          {}
func (zzLog) Fatal(string)          {}
func (zzLog) Print(string)          {}
func (zzLog) Debugf(string, ...any) {}
func (zzLog) Infof(string, ...any)  {}
func (zzLog) Warnf(string, ...any)  {}
func (zzLog) Errorf(string, ...any) {}
func (zzLog) Fatalf(string, ...any) {}
func (zzLog) Printf(string, ...any) {}

// zzView: an arbitrary view; every field symbolic.
func zzView(name string) *lib.View {
	return &lib.View{
		NetworkId:  zzU64(name + ".net"),
		ChainId:    zzU64(name + ".chain"),
		Height:     zzU64(name + ".height"),
		RootHeight: zzU64(name + ".root"),
		Round:      zzU64(name + ".round"),
		Phase:      lib.Phase(zzI32(name + ".phase")),
	}
}
