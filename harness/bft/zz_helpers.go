package bft

import (
	"sync/atomic"

	"github.com/canopy-network/canopy/lib"
	"github.com/canopy-network/canopy/lib/crypto"
)

// zzLog: a LoggerI that does nothing (logging must not influence consensus state; if it did, the
// engine would show a state difference).
type zzLog struct{}

func (zzLog) Debug(string)          {}
func (zzLog) Info(string)           {}
func (zzLog) Warn(string)           {}
func (zzLog) Error(string)          {}
func (zzLog) Fatal(string)          {}
func (zzLog) Print(string)          {}
func (zzLog) Debugf(string, ...any) {}
func (zzLog) Infof(string, ...any)  {}
func (zzLog) Warnf(string, ...any)  {}
func (zzLog) Errorf(string, ...any) {}
func (zzLog) Fatalf(string, ...any) {}
func (zzLog) Printf(string, ...any) {}

// zzCtl: the Controller the BFT talks to. Everything it returns is chosen by the harness; what the
// BFT sends is recorded.
type zzCtl struct {
	height, rootHeight uint64
	valSet             lib.ValidatorSet
	committeeData      *lib.CommitteeData
	sentToProposer     []lib.Signable
	sentToReplicas     []lib.Signable
	gossiped           []*lib.QuorumCertificate
	loadCommitteeRoots []uint64
	syncing            atomic.Bool
	maxBlockSize       int
	validateErr        lib.ErrorI
	minEvidenceHeight  uint64
}

func (c *zzCtl) Lock()                   {}
func (c *zzCtl) Unlock()                 {}
func (c *zzCtl) ChainHeight() uint64     { return c.height }
func (c *zzCtl) RootChainHeight() uint64 { return c.rootHeight }
func (c *zzCtl) ProduceProposal(be *ByzantineEvidence, vdf *crypto.VDF) (uint64, []byte, *lib.CertificateResult, lib.ErrorI) {
	return 0, nil, nil, nil
}
func (c *zzCtl) ValidateProposal(rcBuildHeight uint64, qc *lib.QuorumCertificate, evidence *ByzantineEvidence) (*lib.BlockResult, lib.ErrorI) {
	return nil, c.validateErr
}
func (c *zzCtl) LoadCertificate(height uint64) (*lib.QuorumCertificate, lib.ErrorI) { return nil, nil }
func (c *zzCtl) CommitCertificate(qc *lib.QuorumCertificate, block *lib.Block, blockResult *lib.BlockResult, ts uint64) lib.ErrorI {
	return nil
}
func (c *zzCtl) GossipBlock(certificate *lib.QuorumCertificate, sender []byte, timestamp uint64) {
	c.gossiped = append(c.gossiped, certificate)
}
func (c *zzCtl) GossipConsensus(message *Message, senderPubExclude []byte) {}
func (c *zzCtl) SelfSendBlock(qc *lib.QuorumCertificate, timestamp uint64) {}
func (c *zzCtl) SendToReplicas(replicas lib.ValidatorSet, msg lib.Signable) {
	c.sentToReplicas = append(c.sentToReplicas, msg)
}
func (c *zzCtl) SendToProposer(msg lib.Signable)            { c.sentToProposer = append(c.sentToProposer, msg) }
func (c *zzCtl) LoadRootChainId(height uint64) uint64       { return 1 }
func (c *zzCtl) LoadIsOwnRoot() bool                        { return true }
func (c *zzCtl) Syncing() *atomic.Bool                      { return &c.syncing }
func (c *zzCtl) ResetFSM()                                  {}
func (c *zzCtl) SendCertificateResultsTx(*lib.QuorumCertificate) {}
func (c *zzCtl) LoadCommittee(rootChainId, rootHeight uint64) (lib.ValidatorSet, lib.ErrorI) {
	c.loadCommitteeRoots = append(c.loadCommitteeRoots, rootHeight)
	return c.valSet, nil
}
func (c *zzCtl) LoadCommitteeData() (*lib.CommitteeData, lib.ErrorI) { return c.committeeData, nil }
func (c *zzCtl) LoadLastProposers(rootHeight uint64) (*lib.Proposers, lib.ErrorI) {
	return &lib.Proposers{}, nil
}
func (c *zzCtl) LoadMinimumEvidenceHeight(rootChainId, rootHeight uint64) (*uint64, lib.ErrorI) {
	return &c.minEvidenceHeight, nil
}
func (c *zzCtl) IsValidDoubleSigner(rootChainId, rootHeight uint64, address []byte) bool { return true }
func (c *zzCtl) LoadMaxBlockSize() int                                                 { return c.maxBlockSize }

