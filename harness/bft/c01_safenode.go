package bft

import (
	"bytes"

	"github.com/canopy-network/canopy/lib"
)

// C01-L3 / C15-P2: the SafeNode predicate (bft.SafeNode) against the protocol's view order.
// Rounds restart at 0 on every NEW_COMMITTEE root-height reset while the lock (HighQC) survives
// NewHeight(true), so the only order under which "a lock never moves backwards" and "a newer quorum
// lock always unlocks" are both true is the lexicographic order on (height, rootHeight, round,
// phase). That order is spelled out here (zzViewLess) as the specification; lib.View.Less - the
// code's own implementation of it - is checked against it separately (L3.view-order).
//
// Pre-conditions taken from the call site (CheckProposerMessage -> CheckHighQC, obligation L4):
// the justification has the replica's height, network and chain, and phase PROPOSE_VOTE, as does
// the lock (it was itself admitted as a PRECOMMIT certificate of PROPOSE_VOTE signatures).
// The block/results hashes of the proposal are produced by the same functions SafeNode calls, and
// whether the lock names the same block / results is a symbolic choice, so the harness replays
// natively (sha256) as well as under the uninterpreted-hash model.

// zzViewLess: the specification of the view order.
func zzViewLess(a, b *lib.View) bool {
	if a.Height != b.Height {
		return a.Height < b.Height
	}
	if a.RootHeight != b.RootHeight {
		return a.RootHeight < b.RootHeight
	}
	if a.Round != b.Round {
		return a.Round < b.Round
	}
	return a.Phase < b.Phase
}

func zzSafeNodeWorld() (b *BFT, msg *Message, lock, high *lib.View, sameAsLock bool) {
	cur := zzView("cur")
	lock, high = zzView("lock"), zzView("high")
	for _, v := range []*lib.View{lock, high} {
		zzAssume(v.Height == cur.Height && v.NetworkId == cur.NetworkId && v.ChainId == cur.ChainId)
		zzAssume(v.Phase == lib.Phase_PROPOSE_VOTE)
	}
	b = &BFT{View: cur, log: zzLog{}}
	blk := zzBytes("blk", 4)
	res := &lib.CertificateResult{}
	jb, jr := b.BlockToHash(blk), res.Hash()
	// the lock names the proposed block / results or something else (symbolic choice)
	lockB, lockR := jb, jr
	sameBlock, sameResults := zzBool("lockSameBlock"), zzBool("lockSameResults")
	if !sameBlock {
		lockB = zzBytes("lockBlockHash", 32)
		zzAssume(!bytes.Equal(lockB, jb))
	}
	if !sameResults {
		lockR = zzBytes("lockResultsHash", 32)
		zzAssume(!bytes.Equal(lockR, jr))
	}
	b.HighQC = &QC{Header: lock, BlockHash: lockB, ResultsHash: lockR}
	msg = &Message{
		Qc:     &QC{Header: cur, Block: blk, Results: res},
		HighQc: &QC{Header: high, BlockHash: jb, ResultsHash: jr},
	}
	sameAsLock = sameBlock && sameResults
	return
}

// L3 soundness: SafeNode accepts only the locked proposal itself (same block AND same results) or a
// proposal justified by a certificate that is later than the lock in the view order.
//
//zz:harness unwind=70
//zz:reach L3.accept L3.reject
func ZZ_C01_L3_SafeNode_sound() {
	b, msg, lock, high, same := zzSafeNodeWorld()
	err := b.SafeNode(msg)
	if err == nil {
		zzReach("L3.accept")
		zzAssert("L3.lock-never-moves-backwards", same || zzViewLess(lock, high))
	} else {
		zzReach("L3.reject")
	}
}

// lib.View.Less is the lexicographic order on (height, rootHeight, round, phase) - for arbitrary
// views (all six fields symbolic), incl. irreflexivity and asymmetry.
//
//zz:harness unwind=70
//zz:reach L3.order.done
func ZZ_C01_L3_view_order() {
	a, b := zzView("a"), zzView("b")
	zzAssert("L3.view-order.is-lexicographic", a.Less(b) == zzViewLess(a, b))
	zzAssert("L3.view-order.irreflexive", !a.Less(a))
	zzAssert("L3.view-order.asymmetric", !(a.Less(b) && b.Less(a)))
	zzAssert("L3.view-order.nil-is-least", (*lib.View)(nil).Less(a) && !a.Less(nil))
	zzReach("L3.order.done")
}

// P2 completeness: a proposal that re-proposes the payload of a certificate later than the lock
// (or the lock itself) is accepted - otherwise a replica holding an old lock can never follow the
// quorum again.
//
//zz:harness unwind=70
//zz:reach P2.newer P2.same
func ZZ_C15_P2_SafeNode_complete() {
	b, msg, lock, high, same := zzSafeNodeWorld()
	err := b.SafeNode(msg)
	if same {
		zzReach("P2.same")
		zzAssert("P2.same-proposal-accepted", err == nil)
	} else if zzViewLess(lock, high) {
		zzReach("P2.newer")
		zzAssert("P2.newer-lock-unlocks", err == nil)
	}
}

// The justification must match the proposal it is attached to.
//
//zz:harness unwind=70
//zz:reach L3.mismatch
func ZZ_C01_L3_SafeNode_justification_binds_proposal() {
	b, msg, _, _, _ := zzSafeNodeWorld()
	other := zzBytes("otherHash", 32)
	zzAssume(!bytes.Equal(other, msg.HighQc.BlockHash))
	if zzBool("tamperBlock") {
		msg.HighQc.BlockHash = other
	} else {
		msg.HighQc.ResultsHash = other
		zzAssume(!bytes.Equal(other, msg.Qc.Results.Hash()))
	}
	zzReach("L3.mismatch")
	zzAssert("L3.mismatched-justification-rejected", b.SafeNode(msg) != nil)
	zzAssert("L3.nil-message-rejected", b.SafeNode(nil) != nil && b.SafeNode(&Message{}) != nil)
}
