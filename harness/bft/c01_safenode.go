package bft

import (
	"bytes"

	"github.com/canopy-network/canopy/lib"
)

// C01-L3 / C15-P2: the SafeNode predicate (bft.SafeNode) against the protocol's own view order
// (lib.View.Less). Rounds restart at 0 on every NEW_COMMITTEE root-height reset while the lock
// (HighQC) survives NewHeight(true), so the only order under which "a lock never moves backwards"
// and "a newer quorum lock always unlocks" are both true is View.Less.
//
// Pre-conditions taken from the call site (CheckProposerMessage -> CheckHighQC, obligation L4):
// the justification has the replica's height, network and chain, and phase PROPOSE_VOTE, as does
// the lock (it was itself admitted as a PRECOMMIT certificate of PROPOSE_VOTE signatures).
// The block/results hashes of the proposal are produced by the same functions SafeNode calls, so
// the harness replays natively (sha256) as well as under the uninterpreted-hash model.

func zzSafeNodeWorld() (b *BFT, msg *Message, lock, high *lib.View, sameAsLock bool) {
	cur := zzView("cur")
	lock, high = zzView("lock"), zzView("high")
	for _, v := range []*lib.View{lock, high} {
		zzAssume(v.Height == cur.Height && v.NetworkId == cur.NetworkId && v.ChainId == cur.ChainId)
		zzAssume(v.Phase == lib.Phase_PROPOSE_VOTE)
	}
	b = &BFT{View: cur, log: zzLog{}}
	blk := zzBytes("blk", 4)
	res := &lib.CertificateResult{}
	jb, jr := b.BlockToHash(blk), res.Hash()
	lockB, lockR := zzBytes("lockBlockHash", 32), zzBytes("lockResultsHash", 32)
	b.HighQC = &QC{Header: lock, BlockHash: lockB, ResultsHash: lockR}
	msg = &Message{
		Qc:     &QC{Header: cur, Block: blk, Results: res},
		HighQc: &QC{Header: high, BlockHash: jb, ResultsHash: jr},
	}
	sameAsLock = bytes.Equal(lockB, jb) && bytes.Equal(lockR, jr)
	return
}

// L3 soundness: SafeNode accepts only the locked proposal itself or a proposal justified by a
// certificate that is later than the lock in View.Less.
//
//zz:harness unwind=70
//zz:reach L3.accept L3.reject
func ZZ_C01_L3_SafeNode_sound() {
	b, msg, lock, high, same := zzSafeNodeWorld()
	err := b.SafeNode(msg)
	if err == nil {
		zzReach("L3.accept")
		zzAssert("L3.lock-never-moves-backwards", same || lock.Less(high))
	} else {
		zzReach("L3.reject")
	}
}

// P2 completeness: a proposal that re-proposes the payload of a certificate later than the lock
// (or the lock itself) is accepted - otherwise a replica holding an old lock can never follow the
// quorum again.
//
//zz:harness unwind=70
//zz:reach P2.newer P2.same
func ZZ_C15_P2_SafeNode_complete() {
	b, msg, lock, high, same := zzSafeNodeWorld()
	err := b.SafeNode(msg)
	if same {
		zzReach("P2.same")
		zzAssert("P2.same-proposal-accepted", err == nil)
	} else if lock.Less(high) {
		zzReach("P2.newer")
		zzAssert("P2.newer-lock-unlocks", err == nil)
	}
}

// The justification must match the proposal it is attached to.
//
//zz:harness unwind=70
//zz:reach L3.mismatch
func ZZ_C01_L3_SafeNode_justification_binds_proposal() {
	b, msg, _, _, _ := zzSafeNodeWorld()
	other := zzBytes("otherHash", 32)
	zzAssume(!bytes.Equal(other, msg.HighQc.BlockHash))
	if zzBool("tamperBlock") {
		msg.HighQc.BlockHash = other
	} else {
		msg.HighQc.ResultsHash = other
		zzAssume(!bytes.Equal(other, msg.Qc.Results.Hash()))
	}
	zzReach("L3.mismatch")
	zzAssert("L3.mismatched-justification-rejected", b.SafeNode(msg) != nil)
	zzAssert("L3.nil-message-rejected", b.SafeNode(nil) != nil && b.SafeNode(&Message{}) != nil)
}
