package bft

import (
	"bytes"

	"github.com/canopy-network/canopy/lib"
)

// C14: double-sign evidence (bft.ProcessDSE, DoubleSignEvidence.CheckBasic/Check,
// lib.QuorumCertificate.Check, AggregateSignature.Check/GetDoubleSigners) under the ideal
// signature functionality. Two fully symbolic certificates A and B over a committee of n
// validators (symbolic powers). Validator 0 is honest: it signed at most one payload per view.
// Everybody else may be Byzantine. Whatever evidence is fabricated, validator 0 is never named.
// The committee the node is in NOW differs from the one that signed the evidence.

func zzDSEWorld(n int) (b *BFT, ctl *zzCtl, ev *DoubleSignEvidence, inA, inB []bool) {
	ps := make([]uint64, n)
	for i := range ps {
		ps[i] = uint64(zzU32("power")) + 1
	}
	vs := zzValSet(ps)
	ctl = &zzCtl{valSet: vs, minEvidenceHeight: zzU64("minEvidenceHeight")}
	cur := zzView("cur")
	// the node's CURRENT committee is another one than the committee of the evidence's root height
	// (same validators, every slot moved by one): bitmap positions of old certificates must be
	// resolved against the historical committee the controller returns, never against this one
	now := &lib.ConsensusValidators{}
	for i := range ps {
		now.ValidatorSet = append(now.ValidatorSet, &lib.ConsensusValidator{PublicKey: zzPub((i + 1) % n), VotingPower: ps[(i+1)%n]})
	}
	current, errNow := lib.NewValidatorSet(now)
	zzAssume(errNow == nil)
	b = &BFT{View: cur, Controller: ctl, log: zzLog{}, ValidatorSet: current}
	A, B := zzQC("A", n), zzQC("B", n)
	ev = &DoubleSignEvidence{VoteA: A, VoteB: B}
	pa, pb := A.SignBytes(), B.SignBytes()
	sameView := A.Header.Equals(B.Header)
	samePayload := bytes.Equal(pa, pb)
	zzTruth = zzTruthT{n: n, payloads: [][]byte{pa, pb}, signed: [][]bool{make([]bool, n), make([]bool, n)}, byz: make([]bool, n)}
	for i := 0; i < n; i++ {
		zzTruth.signed[0][i], zzTruth.signed[1][i] = zzBool("signedA"), zzBool("signedB")
		zzTruth.byz[i] = zzBool("byz")
	}
	// validator 0 follows the protocol: never Byzantine, at most one payload per view
	zzAssume(!zzTruth.byz[0])
	if sameView && !samePayload {
		zzAssume(!(zzTruth.signed[0][0] && zzTruth.signed[1][0]))
	}
	inA, inB = make([]bool, n), make([]bool, n)
	for i := 0; i < n; i++ {
		inA[i] = A.Signature.Bitmap[i/8]&(1<<(uint(i)&7)) != 0
		inB[i] = B.Signature.Bitmap[i/8]&(1<<(uint(i)&7)) != 0
	}
	return
}

//zz:harness unwind=60 maxpaths=40000 timebudget=600 param.n@thorough=4
//zz:reach DSE.accepted DSE.rejected
func ZZ_C14_honest_validator_never_implicated() {
	n := zzParam("n", 3)
	b, _, ev, inA, inB := zzDSEWorld(n)
	res, err := b.ProcessDSE(ev)
	if err != nil {
		zzReach("DSE.rejected")
		zzAssert("DSE.error-means-no-signers", len(res) == 0)
		return
	}
	zzReach("DSE.accepted")
	A, B := ev.VoteA, ev.VoteB
	zzAssert("DSE.same-view", A.Header.Equals(B.Header))
	zzAssert("DSE.different-payloads", !bytes.Equal(A.SignBytes(), B.SignBytes()))
	zzAssert("DSE.phase-above-propose", A.Header.Phase > Propose)
	zzAssert("DSE.not-expired", A.Header.RootHeight >= b.Controller.(*zzCtl).minEvidenceHeight)
	zzAssert("DSE.right-network-and-chain", A.Header.NetworkId == b.NetworkId && A.Header.ChainId == b.ChainId)
	for _, ds := range res {
		zzAssert("DSE.honest-validator-never-implicated", !bytes.Equal(ds.Id, zzPub(0)))
		for i := 0; i < n; i++ {
			if bytes.Equal(ds.Id, zzPub(i)) {
				zzAssert("DSE.named-signer-is-in-both-bitmaps", inA[i] && inB[i])
			}
		}
		zzAssert("DSE.slash-height-is-evidence-root-height", len(ds.Heights) == 1 && ds.Heights[0] == A.Header.RootHeight)
	}
}
