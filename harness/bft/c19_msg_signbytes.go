package bft

import (
	"bytes"

	"github.com/canopy-network/canopy/lib"
)

// C19 / D2 for consensus messages: what a Leader signs (bft.Message.SignBytes, proposer branch)
// covers every field a receiver acts on - the message view, the VRF output, and of the embedded
// certificate its OWN view (phase, round, root height ...), block hash, results hash, proposer key and
// aggregate signature. Two fully symbolic Leader messages with equal sign bytes agree on all of them;
// and a pacemaker message binds the view it announces. (Replica votes sign QC.SignBytes, which is
// ZZ_C19_D2_certificate_signbytes_cover_all_fields.) Marshalling = boxing (injective on the fields).

func zzLeaderMsg(name string) *Message {
	m := &Message{Header: zzView(name + ".view")}
	// a Leader phase (Election, Propose, Precommit, Commit)
	m.Header.Phase = []Phase{Election, Propose, Precommit, Commit}[zzConcrete(zzInt(name+".leaderPhase"), 0, 3)]
	if zzBool(name + ".hasVrf") {
		m.Vrf = &lib.Signature{PublicKey: zzBytes(name+".vrfKey", 2), Signature: zzBytes(name+".vrfOut", 2)}
	}
	if zzBool(name + ".hasQc") {
		m.Qc = &QC{Header: zzView(name + ".qcView"), Block: zzBytes(name+".block", 2), BlockHash: zzBytes(name+".blockHash", 3),
			ResultsHash: zzBytes(name+".resultsHash", 3), ProposerKey: zzBytes(name+".proposer", 2),
			Signature: &lib.AggregateSignature{Signature: zzBytes(name+".aggsig", 2), Bitmap: zzBytes(name+".bitmap", 1)}}
	}
	return m
}

func zzViewEq(a, b *lib.View) bool {
	return a.NetworkId == b.NetworkId && a.ChainId == b.ChainId && a.Height == b.Height && a.RootHeight == b.RootHeight && a.Round == b.Round && a.Phase == b.Phase
}

//zz:harness unwind=60 maxpaths=20000
//zz:reach D2.msg.same D2.msg.differ
func ZZ_C19_D2_leader_message_signbytes_cover_all_fields() {
	a, b := zzLeaderMsg("a"), zzLeaderMsg("b")
	sa, sb := a.SignBytes(), b.SignBytes()
	if !bytes.Equal(sa, sb) {
		zzReach("D2.msg.differ")
		return
	}
	zzReach("D2.msg.same")
	zzAssert("D2.msg.view", zzViewEq(a.Header, b.Header))
	zzAssert("D2.msg.vrf", (a.Vrf == nil) == (b.Vrf == nil))
	if a.Vrf != nil && b.Vrf != nil {
		zzAssert("D2.msg.vrf", bytes.Equal(a.Vrf.PublicKey, b.Vrf.PublicKey) && bytes.Equal(a.Vrf.Signature, b.Vrf.Signature))
	}
	zzAssert("D2.msg.certificate-presence", (a.Qc == nil) == (b.Qc == nil))
	if a.Qc != nil && b.Qc != nil {
		zzAssert("D2.msg.certificate-view", zzViewEq(a.Qc.Header, b.Qc.Header))
		zzAssert("D2.msg.certificate-hashes", bytes.Equal(a.Qc.BlockHash, b.Qc.BlockHash) && bytes.Equal(a.Qc.ResultsHash, b.Qc.ResultsHash))
		zzAssert("D2.msg.certificate-proposer-key", bytes.Equal(a.Qc.ProposerKey, b.Qc.ProposerKey))
		zzAssert("D2.msg.certificate-signature", bytes.Equal(a.Qc.Signature.Signature, b.Qc.Signature.Signature) && bytes.Equal(a.Qc.Signature.Bitmap, b.Qc.Signature.Bitmap))
	}
}

//zz:harness unwind=60 maxpaths=20000
//zz:reach D2.pm.same
func ZZ_C19_D2_pacemaker_message_signbytes_bind_the_view() {
	a := &Message{Qc: &QC{Header: zzView("a.view")}}
	b := &Message{Qc: &QC{Header: zzView("b.view")}}
	a.Qc.Header.Phase, b.Qc.Header.Phase = RoundInterrupt, RoundInterrupt
	if bytes.Equal(a.SignBytes(), b.SignBytes()) {
		zzReach("D2.pm.same")
		zzAssert("D2.pm.view", zzViewEq(a.Qc.Header, b.Qc.Header))
	}
}
