package bft

import (
	"bytes"

	"github.com/canopy-network/canopy/lib"
)

// C15 / P3: the leader re-proposes the highest lock it is told about. ELECTION votes carrying
// arbitrary admissible locks arrive through the real AddVote -> handleHighQCVDFAndEvidence in any
// order (admissibility itself - CheckHighQC - is L4/P5's subject and is replaced here by an arbitrary
// verdict per vote); afterwards the lock the leader holds is the maximum, in the protocol's view
// order, of the admissible ones (and of the lock it held before), the block / results it will
// re-propose are the ones that came with THAT lock, and a vote whose lock is not admissible is
// dropped altogether (its signature is not counted).

//zz:stub (*github.com/canopy-network/canopy/lib.QuorumCertificate).CheckHighQC harness zzHighQCVerdict

var zzAdmissible = map[*lib.QuorumCertificate]bool{}

func zzHighQCVerdict(x *lib.QuorumCertificate, maxBlockSize int, view *lib.View, last uint64, vs lib.ValidatorSet) lib.ErrorI {
	if zzAdmissible[x] {
		return nil
	}
	return lib.ErrWrongPhase()
}

func zzLess(a, b *lib.View) bool {
	if a.Height != b.Height {
		return a.Height < b.Height
	}
	if a.RootHeight != b.RootHeight {
		return a.RootHeight < b.RootHeight
	}
	if a.Round != b.Round {
		return a.Round < b.Round
	}
	return a.Phase < b.Phase
}

//zz:harness unwind=60 maxpaths=100000 timebudget=1200 replay=model
//zz:reach P3.done P3.adopted
func ZZ_C15_P3_leader_keeps_the_highest_admissible_lock() {
	n := 3
	vs := zzValSet([]uint64{1, 1, 1})
	view := &lib.View{Height: 5, RootHeight: 3, Round: 4, Phase: Propose, NetworkId: 1, ChainId: 1}
	ctl := &zzCtl{valSet: vs}
	b := &BFT{View: view, ValidatorSet: vs, Controller: ctl, log: zzLog{}, Votes: VotesForHeight{}, CommitteeData: &lib.CommitteeData{},
		ByzantineEvidence: &ByzantineEvidence{DSE: DoubleSignEvidences{}}}
	mkLock := func(name string) *lib.QuorumCertificate {
		return &lib.QuorumCertificate{Header: &lib.View{Height: 5, RootHeight: zzU64(name + ".root"), Round: zzU64(name + ".round"), Phase: PrecommitVote, NetworkId: 1, ChainId: 1},
			BlockHash: zzBytes(name+".hash", 2), ResultsHash: []byte{1}}
	}
	var best *lib.QuorumCertificate
	var bestBlock []byte
	var bestRC uint64
	if zzBool("leaderHadLock") {
		b.HighQC = mkLock("own")
		b.Block = []byte{0xEE}
		b.RCBuildHeight = 77
		best, bestBlock, bestRC = b.HighQC, b.Block, 77
	}
	accepted := 0
	for i := 0; i < n; i++ {
		lock := mkLock("vote")
		zzAdmissible[lock] = zzBool("admissible")
		blk := []byte{byte(0xA0 + i)}
		vote := &Message{
			Qc:        &QC{Header: &lib.View{Height: 5, RootHeight: 3, Round: 4, Phase: ElectionVote, NetworkId: 1, ChainId: 1}, ProposerKey: []byte{7}, Block: blk, Results: &lib.CertificateResult{}},
			HighQc:    lock,
			Signature: &lib.Signature{PublicKey: zzPub(i), Signature: []byte{byte(i + 1)}},
			RcBuildHeight: uint64(100 + i),
		}
		err := b.AddVote(vote)
		if zzAdmissible[lock] {
			zzAssert("P3.admissible-vote-is-counted", err == nil)
			accepted++
			if best == nil || zzLess(best.Header, lock.Header) {
				best, bestBlock, bestRC = lock, blk, uint64(100+i)
			}
		} else {
			zzAssert("P3.vote-with-inadmissible-lock-is-dropped", err != nil)
		}
	}
	if best == nil {
		zzAssert("P3.no-lock-known", b.HighQC == nil)
	} else {
		zzReach("P3.adopted")
		zzAssert("P3.leader-holds-the-highest-admissible-lock", b.HighQC == best)
		zzAssert("P3.block-to-repropose-came-with-that-lock", bytes.Equal(b.Block, bestBlock))
		zzAssert("P3.root-chain-build-height-came-with-that-lock", b.RCBuildHeight == bestRC)
	}
	zzReach("P3.done")
}


// C15 / P6: a round change forgets the failed round's proposal completely. After the real
// NewRound(false) (what Pacemaker runs) nothing of the previous round's proposal is cached - block,
// block hash, results, proposer key, sortition data - so the next leader's different block is hashed
// afresh (GetBlockHash recomputes only when the cache is empty); the lock is NOT touched.
//
//zz:harness unwind=60 replay=model
//zz:reach P6.done
func ZZ_C15_P6_round_change_forgets_the_failed_proposal() {
	vs := zzValSet([]uint64{1, 1, 1})
	lock := zzQC("lock", 3)
	b := &BFT{View: zzView("cur"), ValidatorSet: vs, Controller: &zzCtl{valSet: vs}, log: zzLog{}, HighQC: lock, RCBuildHeight: 9,
		Block: []byte{1, 2}, BlockHash: zzBytes("cachedHash", 32), Results: &lib.CertificateResult{}, ProposerKey: []byte{7}, SortitionData: &lib.SortitionData{}}
	r := b.View.Round
	zzAssume(r < 1<<40)
	b.NewRound(false)
	zzAssert("P6.round-advances-by-one", b.Round == r+1)
	zzAssert("P6.proposal-caches-cleared", b.Block == nil && b.BlockHash == nil && b.Results == nil && b.ProposerKey == nil && b.SortitionData == nil)
	zzAssert("P6.lock-untouched", b.HighQC == lock && b.RCBuildHeight == 9)
	zzReach("P6.done")
}
