package bft

import (
	"github.com/canopy-network/canopy/lib"
)

// C01 / L4 and C15 / P5: admissibility of the lock certificate (HighQC) that a leader re-proposes and
// replicas unlock on - the real lib.QuorumCertificate.CheckHighQC over Check / CheckBasic /
// AggregateSignature.Check (real bitmap code) under the ideal signature functionality.
//   L4 (safety)   an accepted HighQC has phase PROPOSE_VOTE, the view's height, network and chain,
//                 its signers hold >= MinimumMaj23 of the committee, every signer honestly signed
//                 exactly this certificate's payload (or is Byzantine), and its root height is not
//                 below the committee's last-updated root height
//   P5 (liveness) a genuine lock - PROPOSE_VOTE certificate for this height, network and chain,
//                 signed by >= MinimumMaj23, formed at a root height >= the last-updated root height
//                 (INCLUDING equal, the normal case when the root chain has not advanced) and at a
//                 round of this or an earlier root height - is accepted; otherwise a locked replica's
//                 election vote is dropped and its lock can never be re-proposed

//zz:harness unwind=60 maxpaths=60000 timebudget=900 replay=model param.n@thorough=4
//zz:reach L4.accepted L4.rejected P5.genuine
func ZZ_C01_L4_highqc_admissible() {
	n := zzParam("n", 3)
	ps := make([]uint64, n)
	for i := range ps {
		ps[i] = uint64(zzU32("power")) + 1
	}
	vs := zzValSet(ps)
	view := zzView("view")
	qc := zzQC("high", n)
	last := zzU64("lastRootHeightUpdated")
	payload := qc.SignBytes()
	zzTruth = zzTruthT{n: n, payloads: [][]byte{payload}, signed: [][]bool{make([]bool, n)}, byz: make([]bool, n)}
	var signedPower, bitmapPower uint64
	allGenuine := true
	for i := 0; i < n; i++ {
		zzTruth.signed[0][i] = zzBool("signed")
		zzTruth.byz[i] = zzBool("byz")
		in := qc.Signature.Bitmap[i/8]&(1<<(uint(i)&7)) != 0
		if in {
			bitmapPower += ps[i]
			allGenuine = zzAnd(allGenuine, zzOr(zzTruth.signed[0][i], zzTruth.byz[i]))
		}
		if zzTruth.signed[0][i] {
			signedPower += ps[i]
		}
	}
	_ = signedPower
	err := qc.CheckHighQC(zzParam("maxBlockSize", 1000), view, last, vs)
	if err == nil {
		zzReach("L4.accepted")
		zzAssert("L4.phase-is-propose-vote", qc.Header.Phase == lib.Phase_PROPOSE_VOTE)
		zzAssert("L4.same-height", qc.Header.Height == view.Height)
		zzAssert("L4.same-network-and-chain", qc.Header.NetworkId == view.NetworkId && qc.Header.ChainId == view.ChainId)
		zzAssert("L4.two-thirds-signed", bitmapPower >= vs.MinimumMaj23)
		zzAssert("L4.every-signer-signed-this-payload", allGenuine)
		zzAssert("L4.root-height-not-before-last-update", qc.Header.RootHeight >= last)
	} else {
		zzReach("L4.rejected")
	}
	// completeness: the conditions under which a correct replica's lock must be accepted
	paddingClean := true
	for i := n; i < 8*len(qc.Signature.Bitmap); i++ {
		if qc.Signature.Bitmap[i/8]&(1<<(uint(i)&7)) != 0 {
			paddingClean = false
		}
	}
	genuine := qc.Header.Phase == lib.Phase_PROPOSE_VOTE &&
		qc.Header.Height == view.Height && qc.Header.NetworkId == view.NetworkId && qc.Header.ChainId == view.ChainId &&
		qc.Header.RootHeight >= last && qc.Header.RootHeight <= view.RootHeight &&
		(qc.Header.RootHeight < view.RootHeight || qc.Header.Round <= view.Round) &&
		bitmapPower >= vs.MinimumMaj23 && allGenuine && paddingClean
	if genuine {
		zzReach("P5.genuine")
		zzAssert("P5.genuine-lock-is-accepted", err == nil)
	}
}
