package bft

import (
	"bytes"

	"github.com/canopy-network/canopy/lib"
)

// C01 / L2: lock before PRECOMMIT vote. The real StartPrecommitVotePhase + GetProposal +
// CheckProposerAndProposal on a replica with arbitrary view, arbitrary previous lock, an arbitrary
// PRECOMMIT message in (or missing from) the proposal cache and an arbitrary locally validated
// proposal (block hash, results):
//   a PRECOMMIT_VOTE is sent  =>  a leader message for this round and phase was there, it came from
//       the expected proposer, the replica's lock (HighQC) IS the received certificate, that
//       certificate names exactly the block and results the replica validated, and the vote carries
//       the same hashes, the current view and the proposer key
//   no vote is sent            =>  the previous lock is untouched and the round is interrupted
// (RoundInterrupt itself - timers, VDF service - is replaced by a recorder.)

//zz:stub (*github.com/canopy-network/canopy/bft.BFT).RoundInterrupt harness zzRoundInterrupt

var zzInterrupted int

func zzRoundInterrupt(b *BFT) { zzInterrupted++ }

//zz:harness unwind=60 maxpaths=20000 timebudget=600 replay=model
//zz:reach L2.voted L2.interrupted
func ZZ_C01_L2_lock_before_precommit_vote() {
	n := 3
	vs := zzValSet([]uint64{1, 1, 1})
	view := zzView("cur")
	view.Phase = PrecommitVote
	ctl := &zzCtl{valSet: vs}
	var oldLock *QC
	if zzBool("hadLock") {
		oldLock = zzQC("old", n)
	}
	results := &lib.CertificateResult{Retired: zzBool("results.retired")}
	b := &BFT{View: view, ValidatorSet: vs, Controller: ctl, log: zzLog{}, Proposals: ProposalsForHeight{}, HighQC: oldLock,
		ProposerKey: zzBytes("proposerKey", 2), Block: []byte{1}, BlockHash: zzBytes("validatedBlockHash", 32), Results: results, RCBuildHeight: 7}
	msg := &Message{Qc: zzQC("prop", n), Signature: &lib.Signature{PublicKey: zzBytes("sender", 2)}, RcBuildHeight: zzU64("rcBuildHeight")}
	present := zzBool("proposalPresent")
	if present {
		b.Proposals[view.Round] = map[string][]*Message{phaseToString(Precommit): {msg}}
	}
	zzInterrupted = 0
	b.StartPrecommitVotePhase()
	if len(ctl.sentToProposer) == 1 {
		zzReach("L2.voted")
		vote, ok := ctl.sentToProposer[0].(*Message)
		zzAssert("L2.vote-is-a-message", ok && vote.Qc != nil && vote.Qc.Header != nil)
		if !ok {
			return
		}
		zzAssert("L2.leader-message-was-present", present)
		zzAssert("L2.sender-is-the-expected-proposer", bytes.Equal(msg.Signature.PublicKey, b.ProposerKey))
		zzAssert("L2.lock-is-the-received-certificate", b.HighQC == msg.Qc && b.RCBuildHeight == msg.RcBuildHeight)
		zzAssert("L2.lock-names-the-validated-proposal", bytes.Equal(b.HighQC.BlockHash, b.BlockHash) && bytes.Equal(b.HighQC.ResultsHash, results.Hash()))
		zzAssert("L2.vote-carries-the-locked-hashes", bytes.Equal(vote.Qc.BlockHash, b.HighQC.BlockHash) && bytes.Equal(vote.Qc.ResultsHash, b.HighQC.ResultsHash))
		h := vote.Qc.Header
		zzAssert("L2.vote-carries-the-current-view", h.Height == view.Height && h.RootHeight == view.RootHeight && h.Round == view.Round &&
			h.Phase == PrecommitVote && h.NetworkId == view.NetworkId && h.ChainId == view.ChainId)
		zzAssert("L2.vote-names-the-proposer", bytes.Equal(vote.Qc.ProposerKey, b.ProposerKey))
		zzAssert("L2.no-interrupt-when-voting", zzInterrupted == 0)
	} else {
		zzReach("L2.interrupted")
		zzAssert("L2.at-most-one-vote", len(ctl.sentToProposer) == 0)
		zzAssert("L2.no-vote-means-lock-untouched", b.HighQC == oldLock && b.RCBuildHeight == 7)
		zzAssert("L2.no-vote-means-round-interrupt", zzInterrupted == 1)
	}
}

// C01 / L6: resets and the lock. A committee-preserving root-chain update in the middle of a height
// restarts the rounds through the real NewHeight(true): the lock (HighQC, RCBuildHeight) must
// survive untouched whatever the new root height, committee or old lock look like - a replica that
// PRECOMMIT-voted a block may be the only reason nobody can commit another one. A real new height,
// NewHeight() / NewHeight(false), releases it. Either way votes, pacemaker messages and proposals of
// later rounds are cleared and the replica is back at round 0, ELECTION.
//
//zz:harness unwind=60 maxpaths=20000 timebudget=600 replay=model
//zz:reach L6.kept L6.released
func ZZ_C01_L6_root_reset_keeps_the_lock() {
	n := 3
	vs := zzValSet([]uint64{1, 1, 1})
	ctl := &zzCtl{valSet: vs, height: zzU64("ctl.height"), rootHeight: zzU64("ctl.rootHeight"), committeeData: &lib.CommitteeData{LastRootHeightUpdated: zzU64("lastRootUpdate")}}
	var lock *QC
	if zzBool("hadLock") {
		lock = zzQC("lock", n)
	}
	rc := zzU64("rcBuildHeight")
	view := zzView("cur")
	b := &BFT{View: view, ValidatorSet: vs, Controller: ctl, log: zzLog{}, HighQC: lock, RCBuildHeight: rc,
		Proposals:         ProposalsForHeight{0: {phaseToString(Election): {&Message{}}}, 1: {phaseToString(Propose): {&Message{}}}},
		Votes:             VotesForHeight{1: {}},
		PacemakerMessages: PacemakerMessages{"x": &Message{}},
		PartialQCs:        PartialQCs{},
	}
	mode := zzConcrete(zzInt("mode"), 0, 2)
	switch mode {
	case 0:
		b.NewHeight(true)
	case 1:
		b.NewHeight(false)
	case 2:
		b.NewHeight()
	}
	zzAssert("L6.back-to-round-0-election", b.Round == 0 && b.Phase == Election)
	zzAssert("L6.votes-and-pacemaker-cleared", len(b.Votes) == 0 && len(b.PacemakerMessages) == 0)
	zzAssert("L6.later-round-proposals-cleared", len(b.Proposals[1]) == 0)
	zzAssert("L6.view-follows-the-controller", b.Height == ctl.height && b.RootHeight == ctl.rootHeight)
	if mode == 0 {
		zzReach("L6.kept")
		zzAssert("L6.root-reset-keeps-the-lock", b.HighQC == lock && b.RCBuildHeight == rc)
		zzAssert("L6.round-0-election-candidates-kept", len(b.Proposals[0][phaseToString(Election)]) == 1)
	} else {
		zzReach("L6.released")
		zzAssert("L6.new-height-releases-the-lock", b.HighQC == nil && b.RCBuildHeight == 0)
	}
}
