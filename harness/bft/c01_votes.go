package bft

import (
	"bytes"

	"github.com/canopy-network/canopy/lib"
)

// C01 / L1b: the leader's vote bookkeeping. Replica votes for a round and phase arrive through the
// real AddVote (getVoteSet, addSigToVoteSet over the real multi-key bitmap code) from arbitrary
// committee members in arbitrary order, with repeats, for two different payloads; then the real
// GetMajorityVote is asked. If it reports a +2/3 certificate:
//   the bitmap enables exactly the validators that voted for THAT payload, each counted once,
//   their power adds up to >= MinimumMaj23 (> 2/3 of the total), a repeated vote was rejected as a
//   duplicate and never added power, and votes for the other payload contribute nothing.

//zz:harness mode=int unwind=60 maxpaths=100000 timebudget=2400 replay=model param.votes@quick=3 param.votes@thorough=4
//zz:reach L1b.majority L1b.no-majority
func ZZ_C01_L1b_vote_sets_count_each_validator_once() {
	n := zzParam("n", 3)
	ps := make([]uint64, n)
	var total uint64
	for i := range ps {
		ps[i] = zzN64("power")
		zzAssume(ps[i] >= 1 && ps[i] < 1<<32)
		total += ps[i]
	}
	vs := zzValSet(ps)
	view := &lib.View{Height: 5, RootHeight: 3, Round: 2, Phase: ProposeVote + 1, NetworkId: 1, ChainId: 1}
	b := &BFT{View: view, ValidatorSet: vs, Controller: &zzCtl{valSet: vs}, log: zzLog{}, Votes: VotesForHeight{}}
	hashes := [][]byte{zzBytes("blockHash0", 4), zzBytes("blockHash1", 4)}
	zzAssume(!bytes.Equal(hashes[0], hashes[1]))
	votedFor := make([][]bool, 2)
	votedFor[0], votedFor[1] = make([]bool, n), make([]bool, n)
	k := zzParam("votes", 4)
	for j := 0; j < k; j++ {
		who := zzConcrete(zzInt("voter"), 0, n-1)
		which := zzConcrete(zzInt("payload"), 0, 1)
		vote := &Message{
			Qc:        &QC{Header: &lib.View{Height: 5, RootHeight: 3, Round: 2, Phase: ProposeVote, NetworkId: 1, ChainId: 1}, BlockHash: hashes[which], ResultsHash: []byte{9}, ProposerKey: []byte{7}},
			Signature: &lib.Signature{PublicKey: zzPub(who), Signature: []byte{byte(who + 1)}},
		}
		err := b.AddVote(vote)
		if votedFor[which][who] {
			zzAssert("L1b.repeated-vote-is-rejected", err != nil)
		} else {
			zzAssert("L1b.first-vote-is-accepted", err == nil)
			votedFor[which][who] = true
		}
	}
	m, sig, err := b.GetMajorityVote()
	if err != nil {
		zzReach("L1b.no-majority")
		for w := 0; w < 2; w++ {
			var p uint64
			for i := 0; i < n; i++ {
				if votedFor[w][i] {
					p += ps[i]
				}
			}
			zzAssert("L1b.no-majority-means-neither-payload-reached-two-thirds", p < vs.MinimumMaj23)
		}
		return
	}
	zzReach("L1b.majority")
	w := 0
	if bytes.Equal(m.Qc.BlockHash, hashes[1]) {
		w = 1
	}
	var power uint64
	for i := 0; i < n; i++ {
		enabled := sig.Bitmap[i/8]&(1<<(uint(i)&7)) != 0
		zzAssert("L1b.bitmap-is-exactly-the-voters-of-that-payload", enabled == votedFor[w][i])
		if enabled {
			power += ps[i]
		}
	}
	zzAssert("L1b.certified-power-is-two-thirds", power >= vs.MinimumMaj23 && 3*power > 2*total)
}
