package crypto

// C05 / A3: soundness of the signature cache (lib/crypto/key_batch.go). A cache hit must mean that
// exactly this (public key, message, signature) triple was verified before, so the cache key has to
// be injective on triples. All three components are arbitrary byte strings of symbolic length
// 0..N (N = 2 quick, 3 thorough); the public key is a stand-in PublicKeyI whose Bytes() are
// symbolic (key types have different lengths, so the length is not fixed either).

type zzPK struct{ b []byte }

func (p zzPK) Address() AddressI              { return nil }
func (p zzPK) Bytes() []byte                  { return p.b }
func (p zzPK) VerifyBytes(m, s []byte) bool   { return false }
func (p zzPK) String() string                 { return "" }
func (p zzPK) Equals(PublicKeyI) bool         { return false }
func (p zzPK) MarshalJSON() ([]byte, error)   { return nil, nil }
func (p zzPK) UnmarshalJSON(b []byte) error   { return nil }

func zzSegC(name string, max int) []byte {
	b := zzBytesUpTo(name, max)
	n := zzConcrete(len(b), 0, max)
	return b[:n]
}

func zzEqB(a, b []byte) bool {
	if len(a) != len(b) {
		return false
	}
	eq := true
	for i := range a {
		if a[i] != b[i] {
			eq = false
		}
	}
	return eq
}

//zz:harness unwind=40 panic=violation:A3.nopanic
//zz:reach A3.collide A3.differ
func ZZ_C05_A3_cache_key_injective() {
	n := zzParam("seglen", 2)
	t1 := BatchTuple{PublicKey: zzPK{zzSegC("pk1", n)}, Message: zzSegC("m1", n), Signature: zzSegC("s1", n)}
	t2 := BatchTuple{PublicKey: zzPK{zzSegC("pk2", n)}, Message: zzSegC("m2", n), Signature: zzSegC("s2", n)}
	k1, k2 := t1.Key(), t2.Key()
	if k1 == k2 {
		zzReach("A3.collide")
		zzAssert("A3.cache-hit-implies-same-triple",
			zzEqB(t1.PublicKey.Bytes(), t2.PublicKey.Bytes()) && zzEqB(t1.Message, t2.Message) && zzEqB(t1.Signature, t2.Signature))
	} else {
		zzReach("A3.differ")
	}
}
