package controller

import (
	"bytes"
	"sync/atomic"

	"github.com/canopy-network/canopy/bft"
	"github.com/canopy-network/canopy/fsm"
	"github.com/canopy-network/canopy/lib"
	"github.com/canopy-network/canopy/lib/crypto"
)

// C02: the finality gate. Symbolic execution of the real Controller.HandlePeerBlock(msg, syncing =
// false) down through QuorumCertificate.CheckBasic / Check (View.Check, size loop),
// AggregateSignature.Check / getSigners over the real kyber bitmap code, CheckProposalBasic and
// Block.Check, with CommitCertificate cut at a reach-point. The certificate is attacker controlled:
// all six header fields, both hashes, the bitmap, the block header fields and the results are
// symbolic. Two committees exist (one per root height asked for), so "built from a different
// committee" is in scope. Ground truth: honest validators signed only the payloads p0, p1 (two
// arbitrary certificates' sign bytes); Byzantine validators (< 1/3 of the power of the committee in
// force) sign anything.

//zz:stub (*github.com/canopy-network/canopy/controller.Controller).LoadCommittee harness zzLoadCommittee
//zz:stub (*github.com/canopy-network/canopy/controller.Controller).LoadRootChainId harness zzLoadRootChainId
//zz:stub (*github.com/canopy-network/canopy/controller.Controller).LoadMaxBlockSize harness zzLoadMaxBlockSize
//zz:stub (*github.com/canopy-network/canopy/controller.Controller).CommitCertificate harness zzCommitCertificate
//zz:stub (*github.com/canopy-network/canopy/fsm.StateMachine).Height harness zzFSMHeightFn
//zz:stub (*github.com/canopy-network/canopy/lib.Block).BytesToBlockHash harness zzBytesToBlockHash

type zzGateWorld struct {
	committees     map[uint64]lib.ValidatorSet
	askedRoots     []uint64
	fsmHeight      uint64
	committed      []*lib.QuorumCertificate
	committedBlock []*lib.Block
	// rawHeader: what the raw-field scanner (first occurrence of field 1) sees in the block bytes.
	// nil = the canonical encoding, i.e. the same header the decoder produces. Protobuf decoders
	// merge repeated occurrences of a field, so attacker-crafted bytes can make the two differ.
	rawHeader *lib.BlockHeader
}

var zzW zzGateWorld

func zzLoadCommittee(c *Controller, rootChainId, rootHeight uint64) (lib.ValidatorSet, lib.ErrorI) {
	zzW.askedRoots = append(zzW.askedRoots, rootHeight)
	if vs, ok := zzW.committees[rootHeight]; ok {
		return vs, nil
	}
	return lib.ValidatorSet{}, lib.ErrNoValidators()
}
func zzLoadRootChainId(c *Controller, height uint64) uint64 { return 1 }
func zzLoadMaxBlockSize(c *Controller) int                  { return 1 << 20 }
func zzFSMHeightFn(s *fsm.StateMachine) uint64              { return zzW.fsmHeight }
func zzCommitCertificate(c *Controller, qc *lib.QuorumCertificate, block *lib.Block, r *lib.BlockResult, ts uint64) lib.ErrorI {
	zzW.committed = append(zzW.committed, qc)
	zzW.committedBlock = append(zzW.committedBlock, block)
	return nil
}

// the hash of the header field of the wire bytes = the hash BlockHeader.SetHash computes (canonical
// encoding assumption of the boxing model)
func zzBytesToBlockHash(x *lib.Block, bz []byte) ([]byte, lib.ErrorI) {
	if bz == nil {
		return nil, lib.ErrNilBlock()
	}
	blk := new(lib.Block)
	if err := lib.Unmarshal(bz, blk); err != nil {
		return nil, err
	}
	if blk.BlockHeader == nil {
		return crypto.Hash(nil), nil
	}
	if zzW.rawHeader != nil && x != nil {
		blk.BlockHeader = zzW.rawHeader
	}
	h := *blk.BlockHeader
	h.Hash = nil
	hb, _ := lib.Marshal(&h)
	return crypto.Hash(hb), nil
}

func zzHash32(name string) []byte { return zzBytes(name, 32) }

func zzBlock(n int) *lib.Block {
	return &lib.Block{BlockHeader: &lib.BlockHeader{
		Height: zzU64("blk.height"), Hash: zzHash32("blk.hash"), NetworkId: zzU32("blk.net"), Time: zzU64("blk.time"),
		LastBlockHash: zzHash32("blk.last"), StateRoot: zzHash32("blk.state"), TransactionRoot: zzHash32("blk.txroot"),
		ValidatorRoot: zzHash32("blk.valroot"), NextValidatorRoot: zzHash32("blk.nvalroot"), ProposerAddress: zzBytes("blk.proposer", 20),
		LastQuorumCertificate: zzQC("blk.lastqc", n),
	}}
}

//zz:harness mode=int unwind=60 maxpaths=60000 timebudget=1200
//zz:reach C02.commit C02.reject
func ZZ_C02_HandlePeerBlock_gate() {
	n := zzParam("n", 3)
	// two committees, for two root heights
	rootA, rootB := zzU64("rootA"), zzU64("rootB")
	zzAssume(rootA != rootB)
	mk := func(tag string) (lib.ValidatorSet, []uint64, uint64) {
		ps := make([]uint64, n)
		var total uint64
		for i := range ps {
			ps[i] = zzN64("power" + tag)
			zzAssume(ps[i] >= 1 && ps[i] < 1<<32)
			total += ps[i]
		}
		return zzValSet(ps), ps, total
	}
	vsA, psA, totalA := mk("A")
	vsB, psB, totalB := mk("B")
	zzW = zzGateWorld{committees: map[uint64]lib.ValidatorSet{rootA: vsA, rootB: vsB}, fsmHeight: zzU64("fsmHeight")}
	// the certificate under test
	qc := zzQC("qc", n)
	blk := zzBlock(n)
	qc.Block, _ = lib.Marshal(blk)
	if zzBool("nonCanonicalBlockBytes") {
		// the bytes carry a second header occurrence: scanner and decoder see different headers
		zzW.rawHeader = zzBlock(n).BlockHeader
	}
	qc.Results = &lib.CertificateResult{RewardRecipients: &lib.RewardRecipients{PaymentPercents: []*lib.PaymentPercents{{Address: zzBytes("res.addr", 20), Percent: zzU64("res.pct"), ChainId: zzU64("res.chain")}}}}
	// ground truth: what honest validators signed
	p0, p1 := zzQC("p0", n).SignBytes(), zzQC("p1", n).SignBytes()
	zzTruth = zzTruthT{n: n, payloads: [][]byte{p0, p1}, signed: [][]bool{make([]bool, n), make([]bool, n)}, byz: make([]bool, n)}
	var byzA, byzB uint64
	for i := 0; i < n; i++ {
		zzTruth.signed[0][i], zzTruth.signed[1][i], zzTruth.byz[i] = zzBool("signed0"), zzBool("signed1"), zzBool("byz")
		if zzTruth.byz[i] {
			byzA += psA[i]
			byzB += psB[i]
		}
	}
	zzAssume(3*byzA < totalA && 3*byzB < totalB) // fewer than 1/3 Byzantine in either committee
	c := &Controller{log: zzLogF{}, FSM: &fsm.StateMachine{}}
	c.Config.ChainId, c.Config.NetworkID = zzU64("node.chain"), zzU64("node.net")
	c.Consensus = &bft.BFT{Controller: c}
	got, err := c.HandlePeerBlock(&lib.BlockMessage{BlockAndCertificate: qc, Time: 1}, false)
	if err != nil {
		zzReach("C02.reject")
		zzAssert("C02.reject-means-no-commit", len(zzW.committed) == 0 && got == nil)
		return
	}
	zzReach("C02.commit")
	zzAssert("C02.commit-exactly-once", len(zzW.committed) == 1 && zzW.committed[0] == qc)
	zzAssert("C02.phase-is-precommit-vote", qc.Header.Phase == lib.Phase_PRECOMMIT_VOTE)
	zzAssert("C02.network-and-chain", qc.Header.NetworkId == c.Config.NetworkID && qc.Header.ChainId == c.Config.ChainId)
	zzAssert("C02.next-height", qc.Header.Height == blk.BlockHeader.Height && blk.BlockHeader.Height == zzW.fsmHeight)
	hdr := *blk.BlockHeader
	hdr.Hash = nil
	hb, _ := lib.Marshal(&hdr)
	zzAssert("C02.block-hash-binds-block", bytes.Equal(qc.BlockHash, crypto.Hash(hb)))
	rb, _ := lib.Marshal(qc.Results)
	zzAssert("C02.results-hash-binds-results", qc.Results != nil && bytes.Equal(qc.ResultsHash, crypto.Hash(rb)))
	// committee in force = the one at the certificate's own root height
	zzAssert("C02.committee-of-own-root-height", len(zzW.askedRoots) == 1 && zzW.askedRoots[0] == qc.Header.RootHeight)
	ps, vs := psA, vsA
	if qc.Header.RootHeight == rootB {
		ps, vs = psB, vsB
	}
	var signed uint64
	for i := 0; i < n; i++ {
		if qc.Signature.Bitmap[i/8]&(1<<(uint(i)&7)) != 0 {
			signed += ps[i]
		}
	}
	zzAssert("C02.two-thirds-of-power-signed", signed >= vs.MinimumMaj23 && 3*signed > 2*vs.TotalPower)
	sb := qc.SignBytes()
	zzAssert("C02.payload-was-honestly-signed", bytes.Equal(sb, p0) || bytes.Equal(sb, p1))
}

// C02 (second gate): the 'last certificate' a block carries - the COMMIT certificate of the previous
// block, which decides who is rewarded and who is slashed for non-signing - goes through the real
// Controller.CheckAndSetLastCertificate (non-syncing) before the block is applied. An arbitrary
// candidate header with an arbitrary attached certificate is accepted only if the certificate names
// the block, results, height and proposer the node itself committed at the previous height, is for
// this network and chain, and is signed by >= 2/3 of the committee in force at the certificate's own
// root height, every signer honest-or-Byzantine having signed exactly that payload.

//zz:stub (*github.com/canopy-network/canopy/fsm.StateMachine).LoadCertificateHashesOnly harness zzLoadCertHashes
//zz:stub (*github.com/canopy-network/canopy/fsm.StateMachine).Store harness zzFSMStore

var zzExpectedLast *lib.QuorumCertificate
var zzIndexStore = &zzStore{}

func zzLoadCertHashes(s *fsm.StateMachine, h uint64) (*lib.QuorumCertificate, lib.ErrorI) {
	return zzExpectedLast, nil
}
func zzFSMStore(s *fsm.StateMachine) lib.RWStoreI { return zzIndexStore }

//zz:harness mode=int unwind=60 maxpaths=60000 timebudget=1200 param.n@thorough=4
//zz:reach C02.last.accepted C02.last.rejected
func ZZ_C02_last_certificate_gate() {
	n := zzParam("n", 3)
	root := zzU64("root")
	ps := make([]uint64, n)
	var total uint64
	for i := range ps {
		ps[i] = zzN64("power")
		zzAssume(ps[i] >= 1 && ps[i] < 1<<32)
		total += ps[i]
	}
	vs := zzValSet(ps)
	zzW = zzGateWorld{committees: map[uint64]lib.ValidatorSet{root: vs}}
	expected := zzQC("expected", n)
	expected.ProposerKey = zzBytes("expected.proposer", 2)
	zzExpectedLast = expected
	last := zzQC("last", n)
	last.ProposerKey = zzBytes("last.proposer", 2)
	last.Results = &lib.CertificateResult{RewardRecipients: &lib.RewardRecipients{PaymentPercents: []*lib.PaymentPercents{{Address: zzBytes("res.addr", 20), Percent: zzU64("res.pct"), ChainId: zzU64("res.chain")}}}}
	candidate := &lib.BlockHeader{Height: zzU64("candidate.height"), LastQuorumCertificate: last}
	zzAssume(candidate.Height > 1)
	p0 := zzQC("p0", n)
	p0.ProposerKey = zzBytes("p0.proposer", 2)
	payload := p0.SignBytes()
	zzTruth = zzTruthT{n: n, payloads: [][]byte{payload}, signed: [][]bool{make([]bool, n)}, byz: make([]bool, n)}
	var byz uint64
	for i := 0; i < n; i++ {
		zzTruth.signed[0][i], zzTruth.byz[i] = zzBool("signed0"), zzBool("byz")
		if zzTruth.byz[i] {
			byz += ps[i]
		}
	}
	zzAssume(3*byz < total)
	c := &Controller{log: zzLogF{}, FSM: &fsm.StateMachine{}}
	c.Config.ChainId, c.Config.NetworkID = zzU64("node.chain"), zzU64("node.net")
	c.Consensus = &bft.BFT{Controller: c}
	c.isSyncing = &atomic.Bool{}
	err := c.CheckAndSetLastCertificate(candidate)
	if err != nil {
		zzReach("C02.last.rejected")
		return
	}
	zzReach("C02.last.accepted")
	zzAssert("C02.last.names-what-this-node-committed", bytes.Equal(last.BlockHash, expected.BlockHash) && bytes.Equal(last.ResultsHash, expected.ResultsHash) &&
		last.Header.Height == expected.Header.Height && bytes.Equal(last.ProposerKey, expected.ProposerKey))
	zzAssert("C02.last.network-and-chain", last.Header.NetworkId == c.Config.NetworkID && last.Header.ChainId == c.Config.ChainId)
	zzAssert("C02.last.is-for-the-previous-height", last.Header.Height == candidate.Height-1)
	zzAssert("C02.last.committee-of-own-root-height", len(zzW.askedRoots) == 1 && zzW.askedRoots[0] == last.Header.RootHeight)
	var signed uint64
	for i := 0; i < n; i++ {
		if last.Signature.Bitmap[i/8]&(1<<(uint(i)&7)) != 0 {
			signed += ps[i]
		}
	}
	zzAssert("C02.last.two-thirds-of-power-signed", signed >= vs.MinimumMaj23 && 3*signed > 2*vs.TotalPower)
	zzAssert("C02.last.payload-was-honestly-signed", bytes.Equal(last.SignBytes(), payload))
}
