package p2p

import (
	"encoding/binary"
	"errors"
	"math"
	"io"
	"net"
	"time"

	"github.com/canopy-network/canopy/lib/crypto"
)

// C17 / E1, E2: framing of the encrypted transport (p2p/encrypt.go: Write, Read, checkUnread,
// holdUnread, incrementNonce) under an ideal AEAD.
//
// Ideal AEAD (DESIGN §3): Seal(nonce, pt) = pt || nonce || keyid ; Open succeeds iff the trailing
// 16 bytes are exactly (the receiver's nonce, the key id) - i.e. integrity and nonce binding are
// assumed, confidentiality is not modelled. It is plain Go, so the harness replays natively.
// The connection is an in-memory byte queue; the libp2p buffer pool is a LIFO free list whose buffers are poisoned on Put.

//zz:stub github.com/libp2p/go-buffer-pool.Get harness zzPoolGet
//zz:stub github.com/libp2p/go-buffer-pool.Put harness zzPoolPut

// The libp2p buffer pool, modelled adversarially: a buffer handed back with Put no longer belongs
// to the caller - its contents are scribbled over at once (any other user of the process-wide pool
// may do that at any time) and the next Get of a fitting size receives the very same memory.
var zzPoolFree [][]byte

func zzPoolGet(n int) []byte {
	for i := len(zzPoolFree) - 1; i >= 0; i-- {
		if cap(zzPoolFree[i]) >= n {
			b := zzPoolFree[i][:n]
			zzPoolFree = append(zzPoolFree[:i:i], zzPoolFree[i+1:]...)
			return b
		}
	}
	return make([]byte, n)
}

func zzPoolPut(b []byte) {
	b = b[:cap(b)]
	for i := range b {
		b[i] = 0xA5
	}
	zzPoolFree = append(zzPoolFree, b)
}

type zzAEAD struct{ key uint32 }

func (a zzAEAD) NonceSize() int { return crypto.AEADNonceSize }
func (a zzAEAD) Overhead() int  { return crypto.Poly1305TagSize }
func (a zzAEAD) Seal(dst, nonce, plaintext, ad []byte) []byte {
	out := append(dst, plaintext...)
	out = append(out, nonce...)
	return append(out, byte(a.key), byte(a.key>>8), byte(a.key>>16), byte(a.key>>24))
}
func (a zzAEAD) Open(dst, nonce, ciphertext, ad []byte) ([]byte, error) {
	n := len(ciphertext) - crypto.Poly1305TagSize
	if n < 0 {
		return nil, errors.New("short")
	}
	tag := ciphertext[n:]
	for i := 0; i < crypto.AEADNonceSize; i++ {
		if tag[i] != nonce[i] {
			return nil, errors.New("auth")
		}
	}
	if tag[12] != byte(a.key) || tag[13] != byte(a.key>>8) || tag[14] != byte(a.key>>16) || tag[15] != byte(a.key>>24) {
		return nil, errors.New("auth")
	}
	return append(dst, ciphertext[:n]...), nil
}

// zzPipe: the wire. Write appends, Read consumes; reading an empty wire is EOF.
type zzPipe struct{ buf []byte }

func (p *zzPipe) Write(b []byte) (int, error) { p.buf = append(p.buf, b...); return len(b), nil }
func (p *zzPipe) Read(b []byte) (int, error) {
	if len(p.buf) == 0 {
		return 0, io.EOF
	}
	n := copy(b, p.buf)
	p.buf = p.buf[n:]
	return n, nil
}
func (p *zzPipe) Close() error                     { return nil }
func (p *zzPipe) LocalAddr() net.Addr              { return nil }
func (p *zzPipe) RemoteAddr() net.Addr             { return nil }
func (p *zzPipe) SetDeadline(time.Time) error      { return nil }
func (p *zzPipe) SetReadDeadline(time.Time) error  { return nil }
func (p *zzPipe) SetWriteDeadline(time.Time) error { return nil }

func zzConnPair() (w, r *EncryptedConn, wire *zzPipe) {
	wire = &zzPipe{}
	w = &EncryptedConn{conn: wire, send: newInternalState(zzAEAD{7})}
	r = &EncryptedConn{conn: wire, receive: newInternalState(zzAEAD{7})}
	return
}

var zzWriteSizes = []int{0, 1, 1023, 1024, 1025, 2049}
var zzReadSizes = []int{1, 700, 1024, 1500}

// E1: what one side writes (two writes of boundary sizes, symbolic contents) is exactly what the
// other side reads, for every read-buffer size in the set, with nothing skipped or duplicated.
//
//zz:harness unwind=40 maxsteps=400000000 panic=violation:E1.nopanic replay=model
//zz:reach E1.done
func ZZ_C17_E1_framing_roundtrip() {
	w, r, wire := zzConnPair()
	n1 := zzWriteSizes[zzConcrete(zzInt("w1"), 0, len(zzWriteSizes)-1)]
	n2 := zzWriteSizes[zzConcrete(zzInt("w2"), 0, 2)]
	d1, d2 := zzBytes("d1", n1), zzBytes("d2", n2)
	k1, e1 := w.Write(d1)
	k2, e2 := w.Write(d2)
	zzAssert("E1.write-reports-all", e1 == nil && e2 == nil && k1 == n1 && k2 == n2)
	zzAssert("E1.wire-is-whole-frames", len(wire.buf)%crypto.EncryptedFrameSize == 0)
	all := append(append([]byte{}, d1...), d2...)
	rs := zzReadSizes[zzConcrete(zzInt("r"), 0, len(zzReadSizes)-1)]
	got := 0
	for i := 0; i < 3100 && got < len(all); i++ {
		buf := make([]byte, rs)
		n, err := r.Read(buf)
		zzAssert("E1.read-no-error", err == nil)
		zzAssert("E1.read-progress", n > 0 && got+n <= len(all))
		for j := 0; j < n && got+j < len(all); j++ {
			zzAssert("E1.bytes-in-order", buf[j] == all[got+j])
		}
		got += n
		if rs == 1 && got >= 3 {
			break // one-byte reads: the first bytes are enough to exercise the unread buffer
		}
	}
	if rs != 1 {
		zzAssert("E1.everything-delivered", got == len(all))
		_, err := r.Read(make([]byte, 8))
		zzAssert("E1.nothing-extra", err != nil)
	}
	zzAssert("E1.nonces-in-lockstep", rs == 1 || *w.send.nonce == *r.receive.nonce)
	zzReach("E1.done")
}

// E2: any single frame-level manipulation of the ciphertext stream - replace a frame by a forged one,
// swap two frames, duplicate, drop, truncate - makes Read fail at the first affected frame, and no
// byte of an affected frame is delivered.
//
//zz:harness unwind=40 maxsteps=400000000 panic=violation:E2.nopanic
//zz:reach E2.done
func ZZ_C17_E2_tamper_detected() {
	w, r, wire := zzConnPair()
	d := zzBytes("d", 2500) // three frames: 1024 + 1024 + 452
	w.Write(d)
	fs := crypto.EncryptedFrameSize
	frames := [][]byte{wire.buf[0:fs], wire.buf[fs : 2*fs], wire.buf[2*fs : 3*fs]}
	pos := zzConcrete(zzInt("pos"), 0, 2)
	var out []byte
	switch zzConcrete(zzInt("attack"), 0, 4) {
	case 0: // forged frame (no valid tag under the ideal AEAD)
		forged := zzBytes("forged", fs)
		zzAssume(forged[fs-1] != 0 || forged[fs-2] != 0 || forged[fs-3] != 0 || forged[fs-4] != 7)
		for i, f := range frames {
			if i == pos {
				out = append(out, forged...)
			} else {
				out = append(out, f...)
			}
		}
	case 1: // swap pos with the next (or the first two when pos is last)
		a, b := pos, pos+1
		if b > 2 {
			a, b = 0, 1
		}
		pos = a
		order := []int{0, 1, 2}
		order[a], order[b] = b, a
		for _, i := range order {
			out = append(out, frames[i]...)
		}
	case 2: // duplicate frame pos (replay)
		for i, f := range frames {
			out = append(out, f...)
			if i == pos {
				out = append(out, f...)
			}
		}
		pos = pos + 1 // the first affected frame is the repeated one
	case 3: // drop frame pos
		for i, f := range frames {
			if i != pos {
				out = append(out, f...)
			}
		}
		if pos == 2 {
			pos = 3 // dropping the tail is indistinguishable from a slow sender: only "no extra data" applies
		}
	case 4: // truncate inside frame pos
		for i, f := range frames {
			if i < pos {
				out = append(out, f...)
			} else if i == pos {
				out = append(out, f[:fs-1]...)
			}
		}
	}
	wire.buf = out
	got := 0
	failed := false
	for i := 0; i < 6 && !failed; i++ {
		buf := make([]byte, 1024)
		n, err := r.Read(buf)
		if err != nil {
			failed = true
			zzAssert("E2.no-data-with-error", n == 0)
			break
		}
		for j := 0; j < n; j++ {
			zzAssert("E2.only-authentic-bytes", got+j < len(d) && buf[j] == d[got+j])
		}
		got += n
	}
	zzAssert("E2.read-fails", failed)
	limit := pos * crypto.MaxDataSize
	if limit > len(d) {
		limit = len(d)
	}
	zzAssert("E2.stops-before-affected-frame", got <= limit)
	zzReach("E2.done")
}

// E4: the per-direction frame counter. One inductive step from an ARBITRARY counter state (all 12
// nonce bytes symbolic): incrementNonce advances the 64-bit little-endian counter in bytes 4..11 by
// exactly one (except at the very top of the range), never touches the 4-byte prefix, and never
// maps two different states to the same state - so within 2^64-1 frames of a session no nonce (and
// with it no AEAD keystream / authentication key) is ever used twice, and an old frame can only be
// replayed against a nonce that is 2^64-1 frames away.
//
//zz:harness unwind=40
//zz:reach E4.done
func ZZ_C17_E4_nonce_counter_step() {
	var a, b [crypto.AEADNonceSize]byte
	for i := range a {
		a[i] = zzU8("a")
		b[i] = zzU8("b")
	}
	a0, b0 := a, b
	ca := binary.LittleEndian.Uint64(a[4:])
	incrementNonce(&a)
	incrementNonce(&b)
	na := binary.LittleEndian.Uint64(a[4:])
	if ca < math.MaxUint64 {
		zzAssert("E4.counter-advances-by-exactly-one", na == ca+1)
	}
	zzAssert("E4.counter-never-stays", a != a0)
	zzAssert("E4.prefix-untouched", a[0] == a0[0] && a[1] == a0[1] && a[2] == a0[2] && a[3] == a0[3])
	// injective except for the single documented wrap state (MaxUint64 behaves like 0)
	wrapA, wrapB := ca == math.MaxUint64 || ca == 0, binary.LittleEndian.Uint64(b0[4:]) == math.MaxUint64 || binary.LittleEndian.Uint64(b0[4:]) == 0
	if a0 != b0 && !(wrapA && wrapB) {
		zzAssert("E4.different-states-stay-different", a != b)
	}
	zzReach("E4.done")
}
