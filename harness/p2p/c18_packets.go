package p2p

import (
	"time"

	"github.com/canopy-network/canopy/lib"
)

// C18 (sequential kernel only): packetisation and reassembly in p2p/conn.go.
// Goroutine interleavings, channel scheduling and data races are OUTSIDE this check (the engine
// has no scheduler model); what is decided is that the code which cuts a message into packets and
// the code which glues packets back together are exact inverses for every message and every chunk
// size within the bound, and never merge or truncate messages.

type zzLogP struct{}

func (zzLogP) Debug(string)          {}
func (zzLogP) Info(string)           {}
func (zzLogP) Warn(string)           {}
func (zzLogP) Error(string)          {}
func (zzLogP) Fatal(string)          {}
func (zzLogP) Print(string)          {}
func (zzLogP) Debugf(string, ...any) {}
func (zzLogP) Infof(string, ...any)  {}
func (zzLogP) Warnf(string, ...any)  {}
func (zzLogP) Errorf(string, ...any) {}
func (zzLogP) Fatalf(string, ...any) {}
func (zzLogP) Printf(string, ...any) {}

func zzMsg(name string, max int) []byte {
	n := zzConcrete(zzInt(name+".n"), 0, max)
	return zzBytes(name, n)
}

// S1: split(buf, lim): chunks concatenate to buf, every chunk but the last has exactly lim bytes,
// no chunk is empty unless the message is empty, count = ceil(len/lim) (1 for the empty message).
//
//zz:harness unwind=40 panic=violation:S1.nopanic
//zz:reach S1.done
func ZZ_C18_S1_split() {
	buf := zzMsg("buf", zzParam("msglen", 8))
	lim := zzConcrete(zzInt("lim"), 1, zzParam("maxlim", 4))
	chunks := split(buf, lim)
	want := (len(buf) + lim - 1) / lim
	if len(buf) == 0 {
		want = 1
	}
	zzAssert("S1.count", len(chunks) == want)
	pos := 0
	for i, c := range chunks {
		if i < len(chunks)-1 {
			zzAssert("S1.full-chunks", len(c) == lim)
		} else {
			zzAssert("S1.last-chunk", len(c) <= lim && (len(c) > 0 || len(buf) == 0))
		}
		for j := range c {
			zzAssert("S1.bytes-in-order", pos+j < len(buf) && c[j] == buf[pos+j])
		}
		pos += len(c)
	}
	zzAssert("S1.total", pos == len(buf))
	zzReach("S1.done")
}

// S2: the packets of message m1 followed by the packets of m2, fed to the real
// Stream.handlePacket, deliver exactly m1 then m2 to the inbox - whole, unmodified, separate - and
// leave the assembler empty. Packet boundaries are the real split() with a symbolic chunk size.
//
//zz:harness unwind=40 panic=violation:S2.nopanic param.msglen@thorough=7 param.maxlim@thorough=4
//zz:reach S2.done
func ZZ_C18_S2_reassembly() {
	m1, m2 := zzMsg("m1", zzParam("msglen", 5)), zzMsg("m2", zzParam("msglen", 5))
	lim := zzConcrete(zzInt("lim"), 1, zzParam("maxlim", 3))
	s := &Stream{topic: lib.Topic_TX, inbox: make(chan *lib.MessageAndMetadata, 4), logger: zzLogP{}}
	peer := &lib.PeerInfo{}
	for _, m := range [][]byte{m1, m2} {
		chunks := split(m, lim)
		for i, c := range chunks {
			_, err := s.handlePacket(peer, &Packet{StreamId: lib.Topic_TX, Eof: i == len(chunks)-1, Bytes: c}, nil)
			zzAssert("S2.no-error-under-limit", err == nil)
		}
	}
	zzAssert("S2.two-deliveries", len(s.inbox) == 2)
	for k, want := range [][]byte{m1, m2} {
		got := <-s.inbox
		zzAssert("S2.sender", got.Sender == peer)
		zzAssert("S2.length", len(got.Message) == len(want))
		for j := range want {
			if j < len(got.Message) {
				zzAssert("S2.bytes", got.Message[j] == want[j])
			}
		}
		_ = k
	}
	zzAssert("S2.assembler-empty", len(s.msgAssembler) == 0)
	zzReach("S2.done")
}

// S2b: a delivered message is a copy - later packets do not alter a message already in the inbox.
//
//zz:harness unwind=40 panic=violation:S2.nopanic
//zz:reach S2b.done
func ZZ_C18_S2b_delivered_message_is_stable() {
	m1, m2 := zzBytes("m1", 3), zzBytes("m2", 3)
	s := &Stream{topic: lib.Topic_TX, inbox: make(chan *lib.MessageAndMetadata, 4), logger: zzLogP{}}
	peer := &lib.PeerInfo{}
	s.handlePacket(peer, &Packet{StreamId: lib.Topic_TX, Eof: true, Bytes: m1}, nil)
	first := <-s.inbox
	s.handlePacket(peer, &Packet{StreamId: lib.Topic_TX, Eof: true, Bytes: m2}, nil)
	for j := range m1 {
		zzAssert("S2b.first-unchanged", first.Message[j] == m1[j])
	}
	zzReach("S2b.done")
}

// S2c: "delivered whole or not at all" when the consumer falls behind. The inbox (capacity 1 here)
// is full when m2 completes, so m2 is dropped; after the consumer drains the inbox the next message
// m3 of the same peer on the same topic must arrive whole and alone - no byte of the dropped m2 may
// be glued in front of it - and the assembler is empty after every completed message.
//
//zz:harness unwind=40 panic=violation:S2.nopanic param.msglen@thorough=6 param.maxlim@thorough=4
//zz:reach S2c.done
func ZZ_C18_S2c_dropped_message_leaves_no_residue() {
	n := zzParam("msglen", 4)
	m1, m2, m3 := zzMsg("m1", n), zzMsg("m2", n), zzMsg("m3", n)
	lim := zzConcrete(zzInt("lim"), 1, zzParam("maxlim", 3))
	s := &Stream{topic: lib.Topic_TX, inbox: make(chan *lib.MessageAndMetadata, 1), logger: zzLogP{}}
	peer := &lib.PeerInfo{}
	feed := func(m []byte) {
		chunks := split(m, lim)
		for i, c := range chunks {
			_, err := s.handlePacket(peer, &Packet{StreamId: lib.Topic_TX, Eof: i == len(chunks)-1, Bytes: c}, nil)
			zzAssert("S2c.no-error-under-limit", err == nil)
		}
		zzAssert("S2c.assembler-empty-after-message", len(s.msgAssembler) == 0)
	}
	feed(m1)
	feed(m2) // inbox full: dropped
	zzAssert("S2c.full-inbox-keeps-oldest", len(s.inbox) == 1)
	got1 := <-s.inbox
	zzAssert("S2c.first-whole", len(got1.Message) == len(m1))
	for j := range m1 {
		if j < len(got1.Message) {
			zzAssert("S2c.first-bytes", got1.Message[j] == m1[j])
		}
	}
	feed(m3)
	zzAssert("S2c.next-delivered", len(s.inbox) == 1)
	got3 := <-s.inbox
	zzAssert("S2c.next-whole-and-alone", len(got3.Message) == len(m3))
	for j := range m3 {
		if j < len(got3.Message) {
			zzAssert("S2c.next-bytes", got3.Message[j] == m3[j])
		}
	}
	zzReach("S2c.done")
}

// S3: the real MultiConn.Send packet loop at the real chunk size (maxDataChunkSize, about 1 MB): for
// message lengths around the chunk boundary - 0, 1, chunk-1, chunk, chunk+1, 2*chunk - the packets
// handed to the stream carry the topic, concatenate to the message, and EXACTLY the last one carries
// the end-of-message flag (a message that is an exact multiple of the chunk size too). The stream's
// queue (channels, timers) is replaced by a recorder.

//zz:stub (*github.com/canopy-network/canopy/p2p.Stream).queueSends harness zzRecordQueueSends

var zzQueued []*Packet

func zzRecordQueueSends(s *Stream, packets []*Packet, start time.Time, m *lib.Metrics) bool {
	zzQueued = append(zzQueued, packets...)
	return true
}

//zz:harness unwind=40 maxconcretealloc=2100000 maxsteps=400000000 panic=violation:S3.nopanic replay=model
//zz:reach S3.done
func ZZ_C18_S3_send_packet_loop_at_real_chunk_size() {
	chunk := int(maxDataChunkSize)
	n := []int{0, 1, chunk - 1, chunk, chunk + 1, 2 * chunk}[zzConcrete(zzInt("len"), 0, 5)]
	msg := make([]byte, n)
	if n > 0 {
		msg[0], msg[n-1] = zzU8("first"), zzU8("last")
	}
	c := &MultiConn{streams: map[lib.Topic]*Stream{lib.Topic_TX: {topic: lib.Topic_TX}}, p2p: &P2P{}, log: zzLogP{}, Address: &lib.PeerAddress{}}
	zzQueued = nil
	ok := c.Send(lib.Topic_TX, msg)
	zzAssert("S3.send-reports-success", ok)
	want := (n + chunk - 1) / chunk
	if n == 0 {
		want = 1
	}
	zzAssert("S3.packet-count", len(zzQueued) == want)
	total := 0
	for i, p := range zzQueued {
		zzAssert("S3.topic", p.StreamId == lib.Topic_TX)
		zzAssert("S3.exactly-the-last-packet-ends-the-message", p.Eof == (i == len(zzQueued)-1))
		total += len(p.Bytes)
	}
	zzAssert("S3.bytes-add-up", total == n)
	if n > 0 && len(zzQueued) > 0 {
		lastP := zzQueued[len(zzQueued)-1]
		zzAssert("S3.first-and-last-byte-in-place", zzQueued[0].Bytes[0] == msg[0] && len(lastP.Bytes) > 0 && lastP.Bytes[len(lastP.Bytes)-1] == msg[n-1])
	}
	zzReach("S3.done")
}

// S4: streams of different topics do not share reassembly state. The streams come from the real
// P2P.NewStreams; a two-packet message on one topic is interleaved on the wire with a complete
// message of another topic (whole packets, the order the send service may produce): both arrive
// unmodified.
//
//zz:harness unwind=60 panic=violation:S4.nopanic
//zz:reach S4.done
func ZZ_C18_S4_topics_do_not_share_reassembly_state() {
	p := &P2P{log: zzLogP{}}
	p.channels = lib.Channels{}
	for t := lib.Topic(0); t < lib.Topic_INVALID; t++ {
		p.channels[t] = make(chan *lib.MessageAndMetadata, 2)
	}
	streams := p.NewStreams()
	a1, a2, b := zzBytes("a1", 2), zzBytes("a2", 2), zzBytes("b", 3)
	peer := &lib.PeerInfo{}
	sa, sb := streams[lib.Topic_TX], streams[lib.Topic_CONSENSUS]
	zzAssert("S4.streams-exist", sa != nil && sb != nil && sa != sb)
	if sa == nil || sb == nil {
		return
	}
	_, e1 := sa.handlePacket(peer, &Packet{StreamId: lib.Topic_TX, Eof: false, Bytes: a1}, nil)
	_, e2 := sb.handlePacket(peer, &Packet{StreamId: lib.Topic_CONSENSUS, Eof: true, Bytes: b}, nil)
	_, e3 := sa.handlePacket(peer, &Packet{StreamId: lib.Topic_TX, Eof: true, Bytes: a2}, nil)
	zzAssert("S4.no-errors", e1 == nil && e2 == nil && e3 == nil)
	zzAssert("S4.one-message-per-topic", len(p.channels[lib.Topic_TX]) == 1 && len(p.channels[lib.Topic_CONSENSUS]) == 1)
	ma, mb := <-p.channels[lib.Topic_TX], <-p.channels[lib.Topic_CONSENSUS]
	zzAssert("S4.other-topic-message-intact", len(mb.Message) == 3 && mb.Message[0] == b[0] && mb.Message[1] == b[1] && mb.Message[2] == b[2])
	zzAssert("S4.split-message-intact", len(ma.Message) == 4 && ma.Message[0] == a1[0] && ma.Message[1] == a1[1] && ma.Message[2] == a2[0] && ma.Message[3] == a2[1])
	zzReach("S4.done")
}
