package p2p

import "github.com/canopy-network/canopy/lib"

// C18 (sequential kernel only): packetisation and reassembly in p2p/conn.go.
// Goroutine interleavings, channel scheduling and data races are OUTSIDE this check (the engine
// has no scheduler model); what is decided is that the code which cuts a message into packets and
// the code which glues packets back together are exact inverses for every message and every chunk
// size within the bound, and never merge or truncate messages.

type zzLogP struct{}

func (zzLogP) Debug(string)          {}
func (zzLogP) Info(string)           {}
func (zzLogP) Warn(string)           {}
func (zzLogP) Error(string)          {}
func (zzLogP) Fatal(string)          {}
func (zzLogP) Print(string)          {}
func (zzLogP) Debugf(string, ...any) {}
func (zzLogP) Infof(string, ...any)  {}
func (zzLogP) Warnf(string, ...any)  {}
func (zzLogP) Errorf(string, ...any) {}
func (zzLogP) Fatalf(string, ...any) {}
func (zzLogP) Printf(string, ...any) {}

func zzMsg(name string, max int) []byte {
	n := zzConcrete(zzInt(name+".n"), 0, max)
	return zzBytes(name, n)
}

// S1: split(buf, lim): chunks concatenate to buf, every chunk but the last has exactly lim bytes,
// no chunk is empty unless the message is empty, count = ceil(len/lim) (1 for the empty message).
//
//zz:harness unwind=40 panic=violation:S1.nopanic
//zz:reach S1.done
func ZZ_C18_S1_split() {
	buf := zzMsg("buf", zzParam("msglen", 8))
	lim := zzConcrete(zzInt("lim"), 1, zzParam("maxlim", 4))
	chunks := split(buf, lim)
	want := (len(buf) + lim - 1) / lim
	if len(buf) == 0 {
		want = 1
	}
	zzAssert("S1.count", len(chunks) == want)
	pos := 0
	for i, c := range chunks {
		if i < len(chunks)-1 {
			zzAssert("S1.full-chunks", len(c) == lim)
		} else {
			zzAssert("S1.last-chunk", len(c) <= lim && (len(c) > 0 || len(buf) == 0))
		}
		for j := range c {
			zzAssert("S1.bytes-in-order", pos+j < len(buf) && c[j] == buf[pos+j])
		}
		pos += len(c)
	}
	zzAssert("S1.total", pos == len(buf))
	zzReach("S1.done")
}

// S2: the packets of message m1 followed by the packets of m2, fed to the real
// Stream.handlePacket, deliver exactly m1 then m2 to the inbox - whole, unmodified, separate - and
// leave the assembler empty. Packet boundaries are the real split() with a symbolic chunk size.
//
//zz:harness unwind=40 panic=violation:S2.nopanic param.msglen@thorough=7 param.maxlim@thorough=4
//zz:reach S2.done
func ZZ_C18_S2_reassembly() {
	m1, m2 := zzMsg("m1", zzParam("msglen", 5)), zzMsg("m2", zzParam("msglen", 5))
	lim := zzConcrete(zzInt("lim"), 1, zzParam("maxlim", 3))
	s := &Stream{topic: lib.Topic_TX, inbox: make(chan *lib.MessageAndMetadata, 4), logger: zzLogP{}}
	peer := &lib.PeerInfo{}
	for _, m := range [][]byte{m1, m2} {
		chunks := split(m, lim)
		for i, c := range chunks {
			_, err := s.handlePacket(peer, &Packet{StreamId: lib.Topic_TX, Eof: i == len(chunks)-1, Bytes: c}, nil)
			zzAssert("S2.no-error-under-limit", err == nil)
		}
	}
	zzAssert("S2.two-deliveries", len(s.inbox) == 2)
	for k, want := range [][]byte{m1, m2} {
		got := <-s.inbox
		zzAssert("S2.sender", got.Sender == peer)
		zzAssert("S2.length", len(got.Message) == len(want))
		for j := range want {
			if j < len(got.Message) {
				zzAssert("S2.bytes", got.Message[j] == want[j])
			}
		}
		_ = k
	}
	zzAssert("S2.assembler-empty", len(s.msgAssembler) == 0)
	zzReach("S2.done")
}

// S2b: a delivered message is a copy - later packets do not alter a message already in the inbox.
//
//zz:harness unwind=40 panic=violation:S2.nopanic
//zz:reach S2b.done
func ZZ_C18_S2b_delivered_message_is_stable() {
	m1, m2 := zzBytes("m1", 3), zzBytes("m2", 3)
	s := &Stream{topic: lib.Topic_TX, inbox: make(chan *lib.MessageAndMetadata, 4), logger: zzLogP{}}
	peer := &lib.PeerInfo{}
	s.handlePacket(peer, &Packet{StreamId: lib.Topic_TX, Eof: true, Bytes: m1}, nil)
	first := <-s.inbox
	s.handlePacket(peer, &Packet{StreamId: lib.Topic_TX, Eof: true, Bytes: m2}, nil)
	for j := range m1 {
		zzAssert("S2b.first-unchanged", first.Message[j] == m1[j])
	}
	zzReach("S2b.done")
}

// S2c: "delivered whole or not at all" when the consumer falls behind. The inbox (capacity 1 here)
// is full when m2 completes, so m2 is dropped; after the consumer drains the inbox the next message
// m3 of the same peer on the same topic must arrive whole and alone - no byte of the dropped m2 may
// be glued in front of it - and the assembler is empty after every completed message.
//
//zz:harness unwind=40 panic=violation:S2.nopanic param.msglen@thorough=6 param.maxlim@thorough=4
//zz:reach S2c.done
func ZZ_C18_S2c_dropped_message_leaves_no_residue() {
	n := zzParam("msglen", 4)
	m1, m2, m3 := zzMsg("m1", n), zzMsg("m2", n), zzMsg("m3", n)
	lim := zzConcrete(zzInt("lim"), 1, zzParam("maxlim", 3))
	s := &Stream{topic: lib.Topic_TX, inbox: make(chan *lib.MessageAndMetadata, 1), logger: zzLogP{}}
	peer := &lib.PeerInfo{}
	feed := func(m []byte) {
		chunks := split(m, lim)
		for i, c := range chunks {
			_, err := s.handlePacket(peer, &Packet{StreamId: lib.Topic_TX, Eof: i == len(chunks)-1, Bytes: c}, nil)
			zzAssert("S2c.no-error-under-limit", err == nil)
		}
		zzAssert("S2c.assembler-empty-after-message", len(s.msgAssembler) == 0)
	}
	feed(m1)
	feed(m2) // inbox full: dropped
	zzAssert("S2c.full-inbox-keeps-oldest", len(s.inbox) == 1)
	got1 := <-s.inbox
	zzAssert("S2c.first-whole", len(got1.Message) == len(m1))
	for j := range m1 {
		if j < len(got1.Message) {
			zzAssert("S2c.first-bytes", got1.Message[j] == m1[j])
		}
	}
	feed(m3)
	zzAssert("S2c.next-delivered", len(s.inbox) == 1)
	got3 := <-s.inbox
	zzAssert("S2c.next-whole-and-alone", len(got3.Message) == len(m3))
	for j := range m3 {
		if j < len(got3.Message) {
			zzAssert("S2c.next-bytes", got3.Message[j] == m3[j])
		}
	}
	zzReach("S2c.done")
}
