package p2p

import (
	"bytes"
	"crypto/cipher"
	"net"
	"time"

	"github.com/canopy-network/canopy/lib"
	"github.com/canopy-network/canopy/lib/crypto"
)

// C17 / E3: what a successful handshake binds. The real NewHandshake with the three wire exchanges
// (keySwap, signatureSwap, peerMetaSwap) returning attacker-chosen values, the key agreement and key
// derivation uninterpreted (the challenge is an injective function of the DH secret and both
// temporary keys) and an ideal signature functionality: only the pairs (key, message) in a ground
// truth set of two arbitrary honestly produced signatures verify. Obligation:
//   NewHandshake succeeds  =>  the peer's temporary key is not blacklisted, the identity key K the
//   connection is attributed to (Address.PublicKey) signed THIS session's challenge, the peer meta
//   was signed by the SAME key K, network and chain ids equal ours, and the meta stored with the
//   address is the verified one.
// Outside: that an active intermediary cannot obtain such signatures for its own session (the
// man-in-the-middle theorem proper needs an argument over two sessions and X25519/HKDF assumptions).

//zz:stub github.com/canopy-network/canopy/p2p.keySwap harness zzKeySwap
//zz:stub github.com/canopy-network/canopy/p2p.signatureSwap harness zzSignatureSwap
//zz:stub github.com/canopy-network/canopy/p2p.peerMetaSwap harness zzPeerMetaSwap
//zz:stub github.com/canopy-network/canopy/lib/crypto.NewEd25519PrivateKey harness zzTempKey
//zz:stub github.com/canopy-network/canopy/lib/crypto.PubIsBlacklisted harness zzBlacklisted
//zz:stub github.com/canopy-network/canopy/lib/crypto.SharedSecret harness zzSharedSecret
//zz:stub github.com/canopy-network/canopy/lib/crypto.HKDFSecretsAndChallenge harness zzHKDF
//zz:stub github.com/canopy-network/canopy/lib/crypto.NewPublicKeyFromBytes harness zzHandshakePub
//zz:stub (*github.com/canopy-network/canopy/lib.PeerMeta).SignBytes harness zzMetaSignBytes

// the signed content of a peer meta as plain bytes: an injective encoding of its two signed fields
// (17 bytes, so it can never be confused with the 32-byte challenge)
func zzMetaSignBytes(x *lib.PeerMeta) []byte {
	out := []byte{0x4D}
	for i := 7; i >= 0; i-- {
		out = append(out, byte(x.NetworkId>>(8*uint(i))))
	}
	for i := 7; i >= 0; i-- {
		out = append(out, byte(x.ChainId>>(8*uint(i))))
	}
	return out
}

type zzHS struct {
	peerTemp    []byte
	blacklisted bool
	peerSig     *lib.Signature
	peerMeta    *lib.PeerMeta
	challenge   [32]byte
	truth       [2]struct{ pk, msg []byte } // the honestly produced signatures that exist
	sent        [][]byte                    // what we signed
}

var zzH zzHS

type zzPrivKey struct{ id byte }

func (k zzPrivKey) Bytes() []byte { return []byte{k.id} }
func (k zzPrivKey) Sign(msg []byte) []byte {
	zzH.sent = append(zzH.sent, msg)
	return []byte{0x51, k.id}
}
func (k zzPrivKey) PublicKey() crypto.PublicKeyI         { return zzPubKey{[]byte{0xB0, k.id}} }
func (k zzPrivKey) String() string                        { return "" }
func (k zzPrivKey) Equals(o crypto.PrivateKeyI) bool      { return false }
func (k zzPrivKey) MarshalJSON() ([]byte, error)          { return nil, nil }
func (k zzPrivKey) UnmarshalJSON([]byte) error            { return nil }

type zzPubKey struct{ b []byte }

func (p zzPubKey) Address() crypto.AddressI        { return crypto.NewAddress(p.b) }
func (p zzPubKey) Bytes() []byte                   { return p.b }
func (p zzPubKey) String() string                  { return "" }
func (p zzPubKey) Equals(o crypto.PublicKeyI) bool { return bytes.Equal(p.b, o.Bytes()) }
func (p zzPubKey) MarshalJSON() ([]byte, error)    { return nil, nil }
func (p zzPubKey) UnmarshalJSON([]byte) error      { return nil }
func (p zzPubKey) VerifyBytes(msg, sig []byte) bool {
	ok := false
	for _, t := range zzH.truth {
		ok = zzOr(ok, zzAnd(bytes.Equal(t.pk, p.b), bytes.Equal(t.msg, msg)))
	}
	return zzAnd(ok, len(sig) == 1) // a well-formed signature over a pair that really was signed
}

func zzTempKey() (crypto.PrivateKeyI, error) { return zzPrivKey{1}, nil }
func zzBlacklisted(pub []byte) bool          { return zzH.blacklisted }
func zzSharedSecret(peerPub, priv []byte) ([]byte, error) {
	return zzHash("dh", append(append([]byte{}, peerPub...), priv...), 4), nil
}
func zzHKDF(secret, ePub, ePeerPub []byte) (cipher.AEAD, cipher.AEAD, *[32]byte, error) {
	in := append(append(append([]byte{}, secret...), ePub...), ePeerPub...)
	copy(zzH.challenge[:], zzHash("hkdf", in, 32))
	return zzAEAD{7}, zzAEAD{7}, &zzH.challenge, nil
}
func zzHandshakePub(b []byte) (crypto.PublicKeyI, error) { return zzPubKey{b}, nil }
func zzKeySwap(conn net.Conn, pub []byte, t time.Duration) ([]byte, lib.ErrorI) {
	return zzH.peerTemp, nil
}
func zzSignatureSwap(conn net.Conn, s *lib.Signature, t time.Duration) (*lib.Signature, lib.ErrorI) {
	return zzH.peerSig, nil
}
func zzPeerMetaSwap(conn net.Conn, m *lib.PeerMeta, t time.Duration) (*lib.PeerMeta, lib.ErrorI) {
	return zzH.peerMeta, nil
}

type zzNetAddr struct{}

func (zzNetAddr) Network() string { return "tcp" }
func (zzNetAddr) String() string  { return "peer:1" }

type zzHSConn struct{ zzPipe }

func (c *zzHSConn) RemoteAddr() net.Addr { return zzNetAddr{} }

//zz:harness unwind=60 maxpaths=40000 timebudget=900 replay=model
//zz:reach E3.success E3.failure
func ZZ_C17_E3_handshake_binds_identity() {
	zzH = zzHS{
		peerTemp:    zzBytes("peerTempKey", 2),
		blacklisted: zzBool("blacklisted"),
		peerSig:     &lib.Signature{PublicKey: zzBytes("peerIdentityKey", 2), Signature: zzBytesUpTo("peerSig", 1)},
		peerMeta:    &lib.PeerMeta{NetworkId: zzU64("peer.net"), ChainId: zzU64("peer.chain"), Signature: zzBytesUpTo("peerMetaSig", 1)},
	}
	for i := range zzH.truth {
		zzH.truth[i].pk = zzBytes("signed.key", 2)
		zzH.truth[i].msg = zzBytes("signed.msg", 32)
	}
	// the second honest signature may instead be one over a peer-meta payload
	metaTruth := &lib.PeerMeta{NetworkId: zzU64("signedMeta.net"), ChainId: zzU64("signedMeta.chain")}
	if zzBool("secondIsMeta") {
		zzH.truth[1].msg = metaTruth.SignBytes()
	}
	mine := &lib.PeerMeta{NetworkId: zzU64("my.net"), ChainId: zzU64("my.chain")}
	conn, err := NewHandshake(&zzHSConn{}, mine, zzPrivKey{2})
	if err != nil {
		zzReach("E3.failure")
		return
	}
	zzReach("E3.success")
	K := zzH.peerSig.PublicKey
	zzAssert("E3.temporary-key-not-blacklisted", !zzH.blacklisted)
	signedChallenge, signedMeta := false, false
	for _, t := range zzH.truth {
		signedChallenge = zzOr(signedChallenge, zzAnd(bytes.Equal(t.pk, K), bytes.Equal(t.msg, zzH.challenge[:])))
		signedMeta = zzOr(signedMeta, zzAnd(bytes.Equal(t.pk, K), bytes.Equal(t.msg, zzH.peerMeta.SignBytes())))
	}
	zzAssert("E3.identity-key-signed-this-sessions-challenge", signedChallenge)
	zzAssert("E3.meta-signed-by-the-same-identity-key", signedMeta)
	zzAssert("E3.same-network-and-chain", zzH.peerMeta.NetworkId == mine.NetworkId && zzH.peerMeta.ChainId == mine.ChainId)
	zzAssert("E3.connection-attributed-to-the-verified-key", conn != nil && conn.Address != nil && bytes.Equal(conn.Address.PublicKey, K) && conn.Address.PeerMeta == zzH.peerMeta)
	zzAssert("E3.we-signed-the-challenge-and-our-meta", len(zzH.sent) == 2 && bytes.Equal(zzH.sent[0], zzH.challenge[:]) && bytes.Equal(zzH.sent[1], mine.SignBytes()))
	zzAssert("E3.our-meta-is-not-mutated", len(mine.Signature) == 0)
}
