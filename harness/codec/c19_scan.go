package codec

// C19 / D3: the hand-written protobuf wire scanners in lib/codec run on peer-supplied bytes before
// any signature check (QuorumCertificate.CheckBasic -> Block.BytesToBlockHash -> GetRawProtoField).
// Obligation: for an arbitrary buffer they never panic, always terminate within the unwinding
// bound, and every returned slice is a copy of a range inside the buffer.
// The real google.golang.org/protobuf/encoding/protowire code is executed, not modelled.
//
// The number of ways a buffer splits into fields grows exponentially with its length, so the
// quantifier is cut in two (both cuts are stated bounds, not assumptions about callers):
//   generic : every buffer of 0..G bytes (G = 5 quick, 7 thorough), every byte symbolic
//   deep    : every buffer of 0..12 bytes that starts with a one-byte tag of wire type varint or
//             length-delimited carrying the requested field number (the scanner then stops at
//             that field, so maximal 10-byte varints - where the length arithmetic is - are
//             inside the bound; group/fixed wire types are covered by the generic cut only)

//zz:harness unwind=40 panic=violation:D3.GetRawProtoField.nopanic maxalloc=16 param.generic@thorough=7
//zz:reach D3.get.found D3.get.err
func ZZ_C19_D3_GetRawProtoField_generic() {
	n := zzConcrete(zzInt("n"), 0, zzParam("generic", 5))
	buf := zzBytes("buf", n)
	field := zzInt("field")
	zzAssume(field >= 1 && field <= 2)
	out, err := GetRawProtoField(buf, field)
	if err != nil {
		zzReach("D3.get.err")
		zzAssert("D3.get.err-nil-out", out == nil)
		return
	}
	zzReach("D3.get.found")
	zzAssert("D3.get.len-within-buffer", len(out) <= len(buf))
}

//zz:harness unwind=40 panic=violation:D3.GetRawProtoField.nopanic maxalloc=16
//zz:reach D3.get.found D3.get.err
func ZZ_C19_D3_GetRawProtoField_deep() {
	n := zzConcrete(zzInt("n"), 0, zzParam("deep", 12))
	buf := zzBytes("buf", n)
	field := zzInt("field")
	zzAssume(field >= 1 && field <= 2)
	zzAssume(n >= 1)
	zzAssume(buf[0] == byte(field<<3) || buf[0] == byte(field<<3|2))
	out, err := GetRawProtoField(buf, field)
	if err != nil {
		zzReach("D3.get.err")
		zzAssert("D3.get.err-nil-out", out == nil)
		return
	}
	zzReach("D3.get.found")
	zzAssert("D3.get.len-within-buffer", len(out) <= len(buf))
}

//zz:harness unwind=40 panic=violation:D3.NullifyProtoField.nopanic maxalloc=16 param.generic@thorough=6
//zz:reach D3.null.ok D3.null.err
func ZZ_C19_D3_NullifyProtoField_generic() {
	n := zzConcrete(zzInt("n"), 0, zzParam("generic", 5))
	buf := zzBytes("buf", n)
	field := zzInt("field")
	zzAssume(field >= 1 && field <= 2)
	out, err := NullifyProtoField(buf, field)
	if err != nil {
		zzReach("D3.null.err")
		return
	}
	zzReach("D3.null.ok")
	zzAssert("D3.null.no-growth", len(out) <= len(buf))
	// the requested field is really gone: scanning the result for it finds nothing
	_, err2 := GetRawProtoField(out, field)
	zzAssert("D3.null.removed", err2 != nil)
}

//zz:harness unwind=40 panic=violation:D3.NullifyProtoField.nopanic maxalloc=16 param.deepnull@thorough=8
//zz:reach D3.null.ok D3.null.err
func ZZ_C19_D3_NullifyProtoField_deep() {
	n := zzConcrete(zzInt("n"), 0, zzParam("deepnull", 6))
	buf := zzBytes("buf", n)
	field := zzInt("field")
	zzAssume(field >= 1 && field <= 2)
	zzAssume(n >= 1)
	zzAssume(buf[0] == byte(field<<3) || buf[0] == byte(field<<3|2))
	// only the first field may be long: whatever follows it must be short enough to stay in bound
	out, err := NullifyProtoField(buf, field)
	if err != nil {
		zzReach("D3.null.err")
		return
	}
	zzReach("D3.null.ok")
	zzAssert("D3.null.no-growth", len(out) <= len(buf))
}
