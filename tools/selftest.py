#!/usr/bin/env python3
"""selftest.py [--models N] [--property Cxx ...]

Translator validation (DESIGN 2.8, the Serval practice): natively replayable harness entries are run
twice on the SAME concrete inputs -
  (a) by the Go compiler: `go test -overlay` with the harness and the zz primitives bound to a model,
  (b) by the symbolic engine in concrete mode (`gosym -concrete`): every zz nondeterministic value is
      the constant of the model, so the engine follows exactly one path through the SSA of the real code -
and the verdict of every zzAssert, the set of reach-points, assumption failures and panics must agree.
Inputs: the reach-witness models of the last symbolic run (so the interesting side of every harness
is entered) plus deterministic perturbations of them (boundary values). This does NOT decide any
property; it tests the engine's semantics of Go against the compiler's. Exit 1 on any disagreement.
"""
import importlib.machinery, importlib.util, json, os, random, subprocess, sys, tempfile

ROOT = os.path.dirname(os.path.dirname(os.path.abspath(__file__)))
loader = importlib.machinery.SourceFileLoader("zzcheck", os.path.join(ROOT, "check"))
spec = importlib.util.spec_from_loader("zzcheck", loader)
chk = importlib.util.module_from_spec(spec)
loader.exec_module(chk)

BOUNDARY = [0, 1, 2, 7, 8, 127, 128, 255, 256, 65535, 2**31 - 1, 2**32, 2**63 - 1, 2**63, 2**64 - 1]


def perturb(model, rnd):
    out = {}
    for k, v in model.items():
        r = rnd.random()
        if r < 0.5:
            out[k] = v
        elif r < 0.8:
            out[k] = str(rnd.choice(BOUNDARY))
        else:
            out[k] = str(min(2**64 - 1, max(0, int(v) + rnd.choice([-1, 1]))))  # stay inside uint64: 2^64 is no value of any zz input
    return out


def main():
    a = sys.argv[1:]
    nmodels, props = 3, []
    while a:
        if a[0] == "--models":
            nmodels = int(a[1]); a = a[2:]
        elif a[0] == "--property":
            props.append(a[1]); a = a[2:]
        else:
            a = a[1:]
    cfg = json.load(open(os.path.join(ROOT, "checks.json")))
    rnd = random.Random(int(os.environ.get("VERIF_SEED", "0") or 0))
    eng = chk.ensure_engine()
    total = agree = skipped = 0
    bad = []
    for pid in sorted(k for k in cfg if not k.startswith("_")):
        if props and pid not in props:
            continue
        pc = cfg[pid]
        for gi, g in enumerate(pc["groups"]):
            if isinstance(g["harness"], str):
                g["harness"] = cfg["_sets"][g["harness"].lstrip("@")]
            if g.get("replay", "native") != "native":
                continue
            resp = os.path.join(ROOT, "out", pid, f"group{gi}.json")
            if not os.path.exists(resp):
                continue
            d = json.load(open(resp))
            items = []
            for e in d["entries"]:
                if (e.get("options") or {}).get("replay", "native") != "native":
                    continue
                wit = [r["witness"] for r in (e.get("reach") or []) if r.get("witness")]
                if not wit:
                    continue
                params = {k[6:]: v for k, v in (e.get("bounds") or {}).items() if k.startswith("param:")}
                models = [wit[0]] + [perturb(wit[rnd.randrange(len(wit))], rnd) for _ in range(nmodels - 1)]
                for m in models:
                    items.append({"entry": e["entry"], "model": m, "params": params})
            if not items:
                continue
            with tempfile.TemporaryDirectory(dir=os.path.join(ROOT, "out")) as td:
                mp = os.path.join(td, "models.json")
                json.dump(items, open(mp, "w"))
                outp = os.path.join(td, "concrete.json")
                cmd = [eng, "-dir", chk.REPO, "-pkg", g["pkg"], "-harness", ",".join(os.path.join(ROOT, h) for h in g["harness"]),
                       "-zzlib", os.path.join(ROOT, "harness", "zzlib.go.tmpl"), "-entry", ".*", "-concrete", mp, "-out", outp]
                r = subprocess.run(cmd, env=chk.ENV, capture_output=True, text=True)
                if r.returncode != 0 or not os.path.exists(outp):
                    print(f"{pid} group {gi}: engine failed: {r.stderr[-300:]}")
                    bad.append((pid, gi, "engine failed"))
                    continue
                conc = json.load(open(outp))
                for it, c in zip(items, conc):
                    total += 1
                    if any(k.startswith("zz.hash") for k in it["model"]):
                        skipped += 1  # the model fixes outputs of the uninterpreted hash; the native run uses SHA-256
                        continue
                    if c.get("nonconcrete") or c.get("engine_error") or c.get("inconclusive") or c.get("error"):
                        skipped += 1  # uses an engine-side model (hash, boxing ...) that has no concrete value
                        continue
                    viol = {"obligation": "-", "model": it["model"], "note": ""}
                    rdir = os.path.join(td, "replay")
                    st, detail, mpath = chk.native_replay(pid, dict(g, replay="native"), it["entry"], viol, rdir, it["params"])
                    tag = [f for f in os.listdir(rdir) if f.endswith(".replay.log")]
                    log = open(os.path.join(rdir, sorted(tag)[-1])).read() if tag else ""
                    import re
                    m = re.search(r"ZZ-REPLAY failed=\[(.*?)\] reached=\[(.*?)\] assumeFailed=(\w+) panicked=(\w+)", log)
                    for f in os.listdir(rdir):
                        os.remove(os.path.join(rdir, f))
                    if not m:
                        bad.append((pid, it["entry"], "native run produced no verdict"))
                        continue
                    nf = sorted(set(re.findall(r'"([^"]*)"', m.group(1))))
                    nr = sorted(set(re.findall(r'"([^"]*)"', m.group(2))))
                    na, npn = m.group(3) == "true", m.group(4) == "true"
                    ef, er = sorted(set(c.get("failed") or [])), sorted(set(c.get("reached") or []))
                    ea, ep = bool(c.get("assume_failed")), bool(c.get("panicked"))
                    # after an assumption failure or a panic both runs stop; compare only the common prefix semantics
                    same = (na == ea) and (npn == ep) and (nf == ef) and (nr == er)
                    if same:
                        agree += 1
                    else:
                        bad.append((pid, it["entry"], f"native failed={nf} reached={nr} assume={na} panic={npn} | engine failed={ef} reached={er} assume={ea} panic={ep}", it["model"]))
    print(f"translator validation: {total} concrete runs, {agree} agree, {skipped} skipped (engine-side models), {len(bad)} disagree")
    for b in bad[:20]:
        print("  DISAGREE", b)
    json.dump({"runs": total, "agree": agree, "skipped": skipped, "disagree": [list(map(str, b)) for b in bad]},
              open(os.path.join(ROOT, "out", "selftest.json"), "w"), indent=1)
    sys.exit(1 if bad else 0)


if __name__ == "__main__":
    main()
