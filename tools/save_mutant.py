#!/usr/bin/env python3
"""save_mutant.py <property> <name> <mutant-dir> <detected:yes|no> <by-check-obligation-or-why-missed> 
Copies patch.diff, demo_test.go, README.md into /verif/seeded/<property>-<name>/ and writes meta.json."""
import sys, os, shutil, json, re
pid, name, mdir, detected, note = sys.argv[1:6]
dst = f"/verif/seeded/{pid}-{name}"
os.makedirs(dst, exist_ok=True)
for f in ("patch.diff", "demo_test.go", "README.md"):
    shutil.copy(os.path.join(mdir, f), os.path.join(dst, f))
readme = open(os.path.join(mdir, "README.md")).read()
demo_first = open(os.path.join(mdir, "demo_test.go")).readline().strip()
files = sorted(set(re.findall(r"^\+\+\+ b/(\S+)", open(os.path.join(mdir, "patch.diff")).read(), re.M)))
meta = {
 "property": pid, "name": name, "files_changed": files, "demo": demo_first,
 "needs_to_manifest": next((l.strip() for l in readme.splitlines() if re.search(r"condition|needs|trigger|manifest", l, re.I) and len(l) > 30), ""),
 "confirmed_by_me": "tools/confirm_mutant.sh: demo passes on the unmodified tree, fails with the patch; go build and the existing tests of the touched packages pass with the patch",
 "check_run": f"tools/try_mutant.sh {dst}/patch.diff {pid}",
 "detected": detected == "yes", "detected_by_or_gap": note,
}
json.dump(meta, open(os.path.join(dst, "meta.json"), "w"), indent=1)
print("saved", dst)
