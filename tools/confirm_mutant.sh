#!/bin/bash
# confirm_mutant.sh <worktree> <mutant-dir>  : demo fails with patch, passes without; package tests pass with patch
set -u
WT=$1; M=$2
export GOFLAGS=-mod=readonly GOPROXY=off GOSUMDB=off GOTOOLCHAIN=local PATH=/opt/veriftools/go1.26.8/bin:$PATH
cd $WT || exit 2
git checkout -q -- . ; 
dest=$(head -1 $M/demo_test.go | sed 's|.*copy to: *||')
pkg=./$(dirname $dest)
cp $M/demo_test.go $dest
echo "--- demo WITHOUT patch ($pkg)"; go test -vet=off -count=1 -run '^TestSeedDemo$' $pkg 2>&1 | tail -3
git apply $M/patch.diff || { echo "PATCH DOES NOT APPLY"; rm -f $dest; exit 2; }
echo "--- demo WITH patch"; go test -vet=off -count=1 -run '^TestSeedDemo$' $pkg 2>&1 | tail -4
rm -f $dest
echo "--- build + existing tests WITH patch"
pkgs=$(git diff --name-only | xargs -n1 dirname | sort -u | sed 's|^|./|' | tr '\n' ' ')
go build $pkgs 2>&1 | tail -3
go test -vet=off -count=1 $pkgs $pkg 2>&1 | tail -6
git checkout -q -- .
