#!/usr/bin/env python3
"""design_table.py : print the as-built table of DESIGN 9.3 from the committed evidence files."""
import json, glob, os
ROOT = os.path.dirname(os.path.dirname(os.path.abspath(__file__)))
print("| id | harness entries | obligations discharged | paths explored | real functions executed | quick wall (16 cores, loaded) | entries |")
print("|---|---|---|---|---|---|---|")
for f in sorted(glob.glob(os.path.join(ROOT, "evidence", "C*.json"))):
    e = json.load(open(f)); c = e["coverage"]
    names = sorted({s["entry"].split("_", 2)[2] if s["entry"].startswith("ZZ_" + e["property_id"]) else s["entry"][3:] for s in c.get("samples", [])})
    print(f"| {e['property_id']} | {c.get('harness_entries')} | {c.get('discharged')} | {c.get('paths')} | {c.get('functions_encoded_count')} | {e['wall_s']:.0f} s | {', '.join(names)} |")
