#!/bin/bash
# try_mutant.sh <patch.diff> <property> [--entry REGEX] : run the property's quick check against a
# scratch worktree of /repo's HEAD with the patch applied (VERIF_REPO), so that /repo itself - which
# background sweeps read - is never modified. Evidence of the trial goes to out/evidence-scratch.
set -u
P=$(readlink -f "$1"); shift
WT=/tmp/verif_mutant_wt
git -C /repo worktree remove --force $WT >/dev/null 2>&1
git -C /repo worktree add --detach $WT HEAD >/dev/null 2>&1 || { echo "cannot create worktree"; exit 2; }
git -C $WT apply $P || { echo "patch does not apply"; git -C /repo worktree remove --force $WT; exit 2; }
cd /verif && VERIF_REPO=$WT VERIF_SCRATCH_EVIDENCE=1 ./check "$@" --tier quick 2>&1 | grep -v "^  discharged" | tail -12
echo "check exit=${PIPESTATUS[0]}"
git -C /repo worktree remove --force $WT >/dev/null 2>&1
