#!/bin/bash
# try_mutant.sh <patch.diff> <property> [--entry REGEX] : apply to /repo, run the quick check, revert
set -u
P=$1; shift
cd /repo && git status --short | grep -v '^??' | head -1 | grep -q . && { echo "/repo not clean"; exit 2; }
git -C /repo apply $P || { echo "patch does not apply"; exit 2; }
cd /verif && VERIF_SCRATCH_EVIDENCE=1 ./check "$@" --tier quick 2>&1 | grep -v "^  discharged" | tail -12
echo "check exit=${PIPESTATUS[0]}"
git -C /repo checkout -- .
git -C /repo status --short | grep -v '^??' | head -3
