#!/usr/bin/env python3
"""Generate MANIFEST.json from checks.json (single source of truth for what each check claims)."""
import json, os
ROOT = os.path.dirname(os.path.dirname(os.path.abspath(__file__)))
cfg = {k: v for k, v in json.load(open(os.path.join(ROOT, "checks.json"))).items() if not k.startswith("_")}
NA = {
 "C03": "compares whole ApplyBlock runs across node paths, goroutine schedules of the parallel tree commit and process-wide caches; needs pebble, goroutines and the protobuf runtime, none of which the SSA->SMT engine can encode",
 "C09": "quantifies over crash instants between pebble's file-system operations; no Go-level code the engine can execute symbolically and no scalar kernel",
 "C11": "moving a block between nodes / re-serving it from the archive exercises mempool + ApplyBlock + indexer + protobuf re-marshalling + pebble end to end; the only kernel is an equality of two protobuf encodings (protobuf runtime out of reach)",
}
PENDING = "check under construction in this session; not yet claimed"
checks = []
for pid in sorted(cfg):
    c = cfg[pid]
    text = c.get("claim") or ("Bounded proof by symbolic execution of the real code: " + c["explanation"] + ". Every obligation is unsat for all inputs within the stated bounds; a sat answer is replayed natively before it is reported.")
    note = "Assumptions/bounds: " + "; ".join(c.get("assumptions", [])) + ". Outside the claim: " + "; ".join(c.get("outside", [])) + ". Trusted: go/ssa lowering (x/tools v0.50.0), the gosym executor, z3 5.1 / cvc5 1.0, the environment stubs listed in the evidence."
    checks.append({
        "property_id": pid,
        "quick_cmd": f"./check {pid} --tier quick",
        "thorough_cmd": f"./check {pid} --tier thorough",
        "evidence_file": f"evidence/{pid}.json",
        "replay_cmd_template": f"./check {pid} --replay {{path}}",
        "engine": "gosym",
        "level_claimed": {"category": c.get("level", "proof"), "text": text, "design_ref": f"DESIGN.md §4 {pid}"},
        "level_note": note,
        "technique": c.get("technique", "go/ssa symbolic execution to SMT-LIB (z3 5.1 + cvc5), unsat per path within stated bounds; counterexamples replayed natively"),
    })
claimed = set(cfg)
na = [{"property_id": k, "reason": v} for k, v in NA.items()]
for i in range(1, 21):
    pid = "C%02d" % i
    if pid not in claimed and pid not in NA:
        na.append({"property_id": pid, "reason": PENDING})
m = {
 "version": 1,
 "setup_cmd": "./setup.sh",
 "hooks": {"guard": "verif", "enable": "no source hooks: harnesses are injected through go/packages overlays (engine) and go test -overlay (replays); /repo is never written by a check",
           "baseline_off_cmd": "rm -rf /dev/shm/zzbase && mkdir -p /dev/shm/zzbase && git -C /repo archive HEAD | tar -x -C /dev/shm/zzbase && cd /dev/shm/zzbase && GOFLAGS=-mod=mod go test -json -vet=off -count=1 -timeout 25m ./... ; rm -rf /dev/shm/zzbase",
           "source_commits": [], "add_only": True},
 "engines": [{"name": "gosym", "path": "engine/", "serves_properties": sorted(claimed),
              "kind_free_text": "own go/ssa -> SMT-LIB2 symbolic executor (re-executing DFS over decision prefixes, if-conversion, bit-vector and integer encodings, boxing model for protobuf, uninterpreted injective hashes, math/big as Int), z3 5.1 + cvc5 1.0 back ends, native replay of counterexamples via go test -overlay"}],
 "checks": checks,
 "notes": "Solver-based checking of the real code only (DESIGN.md). Genuine defects found by the checks are repaired by 'fix:' commits in /repo and listed under 'fixed' in known_findings.json.",
 "not_applicable": sorted(na, key=lambda x: x["property_id"]),
}
json.dump(m, open(os.path.join(ROOT, "MANIFEST.json"), "w"), indent=1)
print("claimed:", sorted(claimed))
