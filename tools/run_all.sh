#!/bin/bash
# run_all.sh <tier> : every registered check (or those in $VERIF_PROPS) in sequence, one summary line each
cd "$(dirname "$0")/.."
for p in ${VERIF_PROPS:-C01 C02 C04 C05 C06 C07 C08 C10 C12 C13 C14 C15 C16 C17 C18 C19 C20}; do
  s=$(date +%s)
  VERIF_SCRATCH_EVIDENCE=${VERIF_SCRATCH_EVIDENCE:-} ./check $p --tier $1 > out/$p.$1.log 2>&1
  rc=$?
  echo "$p exit=$rc $(( $(date +%s) - s ))s :: $(tail -1 out/$p.$1.log)"
  grep -E "^(VIOLATION|INCONCLUSIVE|KNOWN-FINDING)" out/$p.$1.log | cut -c1-300 | head -5
done
