package crypto

import "testing"

func TestZZCacheKeyAmbiguity(t *testing.T) {
	k, _ := NewBLS12381PrivateKey()
	pub := k.PublicKey()
	msg := []byte("pay 1 to bob")
	sig := k.Sign(msg)
	if !pub.VerifyBytes(msg, sig) {
		t.Fatal("honest verify failed")
	}
	// shift one byte of the signature into the message
	msg2 := append(append([]byte{}, msg...), sig[0])
	sig2 := sig[1:]
	t.Logf("forged pair accepted: %v (len sig2=%d)", pub.VerifyBytes(msg2, sig2), len(sig2))
	DisableCache = true
	t.Logf("with cache disabled: %v", pub.VerifyBytes(msg2, sig2))
}
