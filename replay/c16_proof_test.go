package store

// Stub-free replay of the C16 findings (run: go test -overlay, see replay/README or DESIGN §9.2).
// Before fix ed1372f both tests fail on the real tree code; after it they pass.

import (
	"testing"

	"github.com/canopy-network/canopy/lib"
)

// a proof node whose key is one byte long made key.totalBits index out of range
func TestZZReplayC16ShortKeyPanics(t *testing.T) {
	defer func() {
		if r := recover(); r != nil {
			t.Fatalf("VerifyProof panicked on a malformed proof: %v", r)
		}
	}()
	ms, _ := NewStoreInMemory(lib.NewDefaultLogger())
	smt := NewDefaultSMT(ms)
	ok, _ := smt.VerifyProof([]byte("k"), []byte("v"), true, []byte("root"), []*lib.Node{{Key: []byte{0}, Value: []byte{1}}, {Key: []byte{0}, Value: []byte{2}}})
	if ok {
		t.Fatal("malformed proof accepted")
	}
}

// the honest proof for key A was accepted as proof that a PRESENT key B is absent
func TestZZReplayC16ForeignProof(t *testing.T) {
	ms, _ := NewStoreInMemory(lib.NewDefaultLogger())
	smt := NewDefaultSMT(ms)
	keys := [][]byte{}
	for i := 0; i < 40; i++ {
		keys = append(keys, []byte{byte('a' + i)})
	}
	ops := map[uint64]valueOp{}
	for i, k := range keys {
		ops[uint64(i)] = valueOp{key: k, value: []byte("v"), op: opSet}
	}
	if err := smt.Commit(ops); err != nil {
		t.Fatal(err)
	}
	root := smt.Root()
	bad, panics := 0, 0
	for _, a := range keys {
		proof, err := smt.GetMerkleProof(a)
		if err != nil {
			t.Fatal(err)
		}
		if okA, _ := smt.VerifyProof(a, []byte("v"), true, root, proof); !okA {
			t.Fatalf("honest proof for %s rejected", a)
		}
		for _, b := range keys {
			if string(a) == string(b) {
				continue
			}
			func() {
				defer func() {
					if recover() != nil {
						panics++
					}
				}()
				if ok, _ := smt.VerifyProof(b, nil, false, root, proof); ok {
					bad++
				}
			}()
		}
	}
	// absent keys are still provable
	for i := 0; i < 20; i++ {
		z := []byte{'z', byte(i)}
		proof, err := smt.GetMerkleProof(z)
		if err != nil {
			t.Fatal(err)
		}
		if ok, _ := smt.VerifyProof(z, nil, false, root, proof); !ok {
			t.Fatalf("honest non-membership proof for absent key rejected")
		}
	}
	if bad != 0 || panics != 0 {
		t.Fatalf("non-membership of a PRESENT key accepted in %d (A,B) pairs, %d panics, out of %d", bad, panics, len(keys)*(len(keys)-1))
	}
}
