package lib

import (
	"bytes"
	"testing"
)

func TestZZQCCheckBasicPanic(t *testing.T) {
	defer func() { t.Logf("recovered: %v", recover()) }()
	blk := append([]byte{0x0A}, append(bytes.Repeat([]byte{0x80}, 9), 0x01)...)
	qc := &QuorumCertificate{Header: &View{Height: 1}, BlockHash: bytes.Repeat([]byte{1}, 32), ResultsHash: bytes.Repeat([]byte{2}, 32), Block: blk,
		Signature: &AggregateSignature{Signature: bytes.Repeat([]byte{3}, 96), Bitmap: []byte{1}}}
	// round-trip through the wire format first, as a peer message would
	bz, err := Marshal(qc)
	if err != nil { t.Fatal(err) }
	q2 := new(QuorumCertificate)
	if err := Unmarshal(bz, q2); err != nil { t.Fatalf("unmarshal rejected: %v", err) }
	t.Logf("CheckBasic -> %v", q2.CheckBasic())
}
