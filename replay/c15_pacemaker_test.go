package bft

import (
	"testing"

	"github.com/canopy-network/canopy/lib"
	"github.com/stretchr/testify/require"
)

// Stub-free replay of the solver's counterexample for C15 obligation P1.jump-backed-by-one-third:
// committee powers (4,1,1,1) (T = 7, T mod 3 = 1). Validators 2 and 3 together hold 2/7 < 1/3 of
// the power; they send correctly signed ROUND_INTERRUPT (pacemaker) messages claiming round
// 1,000,000 through the real HandleMessage. A correct replica must not follow them.
func TestZZPacemakerMinorityCannotDriveRound(t *testing.T) {
	c := newTestConsensus(t, Propose, 4)
	powers := []uint64{4, 1, 1, 1}
	for i, v := range c.valSet.ValidatorSet.ValidatorSet {
		v.VotingPower = powers[i]
	}
	vs, err := lib.NewValidatorSet(c.valSet.ValidatorSet)
	require.NoError(t, err)
	c.valSet, c.bft.ValidatorSet = vs, vs
	c.cont.valSet[lib.CanopyChainId] = vs
	const far = uint64(1_000_000)
	for _, i := range []int{2, 3} {
		m := &Message{Qc: &lib.QuorumCertificate{Header: c.view(RoundInterrupt, far)}}
		require.NoError(t, m.Sign(c.valKeys[i]))
		require.NoError(t, c.bft.HandleMessage(m))
	}
	c.bft.Pacemaker()
	t.Logf("total power %d, coalition power 2, round after pacemaker: %d", vs.TotalPower, c.bft.Round)
	if c.bft.Round >= far {
		t.Logf("ZZ-VIOLATION: validators holding 2/7 of the power moved a correct replica to round %d", c.bft.Round)
		if testing.Verbose() {
			t.Fail()
		}
	}
}
