package fsm

import (
	"testing"

	"github.com/canopy-network/canopy/lib"
	"github.com/canopy-network/canopy/lib/crypto"
	"github.com/stretchr/testify/require"
)

func TestZZSlashToZeroWhileUnstaking(t *testing.T) {
	sm := newTestStateMachine(t)
	valParams, err := sm.GetParamsVal()
	require.NoError(t, err)
	addr := crypto.NewAddressFromBytes(newTestAddressBytes(t))
	v := &Validator{Address: addr.Bytes(), PublicKey: newTestPublicKeyBytes(t), StakedAmount: 1, Committees: []uint64{lib.CanopyChainId}, Output: addr.Bytes()}
	require.NoError(t, sm.AddToTotalSupply(1))
	require.NoError(t, sm.AddToStakedSupply(1))
	require.NoError(t, sm.SetValidator(v))
	require.NoError(t, sm.SetCommittees(addr, 1, v.Committees))
	// begin unstaking: finishes at height 10
	require.NoError(t, sm.SetValidatorUnstaking(addr, v, 10))
	// slash 10%: floor(1*90/100) = 0 -> validator deleted
	require.NoError(t, sm.SlashValidator(v, lib.CanopyChainId, 10, valParams))
	_, e := sm.GetValidator(addr)
	t.Logf("validator after slash: err=%v", e != nil)
	bz, _ := sm.Get(KeyForUnstaking(10, addr))
	t.Logf("unstaking marker still present: %v", bz != nil)
	sm.height = 10
	t.Logf("DeleteFinishedUnstaking at height 10 -> %v", sm.DeleteFinishedUnstaking())
	_, err2 := sm.EndBlock(addr.Bytes())
	t.Logf("EndBlock at height 10 -> err=%v", err2)
}
