package bft

import (
	"bytes"
	"fmt"
	"sync"
	"sync/atomic"
	"testing"

	"github.com/canopy-network/canopy/lib"
	"github.com/canopy-network/canopy/lib/crypto"
	"google.golang.org/protobuf/proto"
)

// ---- a 4-node in-memory network around real bft.BFT instances (all nodes run the honest code) ----

type zzNet struct {
	nodes      []*zzNode
	valSet     ValSet
	proposers  *lib.Proposers
	drop       func(from, to int, m *Message) bool // true = message lost
	queue      []zzEnvelope
	log        func(string, ...any)
	byz        int
}
type zzEnvelope struct {
	from, to int
	m        *Message
}
type zzNode struct {
	sync.Mutex
	idx        int
	net        *zzNet
	key        crypto.PrivateKeyI
	bft        *BFT
	rootHeight uint64
	block      []byte // what this node proposes when it builds a fresh block
	committed  []byte // block hash committed at this height (nil = none)
	done       chan struct{}
}

var _ Controller = &zzNode{}

func (n *zzNode) ChainHeight() uint64     { return 1 }
func (n *zzNode) RootChainHeight() uint64 { return n.rootHeight }
func (n *zzNode) ProduceProposal(_ *ByzantineEvidence, _ *crypto.VDF) (uint64, []byte, *lib.CertificateResult, lib.ErrorI) {
	return n.rootHeight, n.block, &lib.CertificateResult{RewardRecipients: &lib.RewardRecipients{PaymentPercents: []*lib.PaymentPercents{{Address: crypto.Hash([]byte("mock"))[:20], ChainId: lib.CanopyChainId, Percent: 100}}}}, nil
}
func (n *zzNode) ValidateProposal(_ uint64, qc *lib.QuorumCertificate, _ *ByzantineEvidence) (*lib.BlockResult, lib.ErrorI) {
	return &lib.BlockResult{BlockHeader: &lib.BlockHeader{}}, nil
}
func (n *zzNode) LoadCertificate(uint64) (*lib.QuorumCertificate, lib.ErrorI) { return nil, nil }
func (n *zzNode) CommitCertificate(*lib.QuorumCertificate, *lib.Block, *lib.BlockResult, uint64) lib.ErrorI {
	return nil
}
func (n *zzNode) GossipBlock(*lib.QuorumCertificate, []byte, uint64) {}
func (n *zzNode) GossipConsensus(*Message, []byte)                   {}
func (n *zzNode) SelfSendBlock(qc *lib.QuorumCertificate, _ uint64) {
	n.committed = bytes.Clone(qc.BlockHash)
	close(n.done)
}
func (n *zzNode) send(to int, msg lib.Signable) {
	m := msg.(*Message)
	if err := m.Sign(n.key); err != nil {
		panic(err)
	}
	n.net.queue = append(n.net.queue, zzEnvelope{n.idx, to, proto.Clone(m).(*Message)})
}
func (n *zzNode) SendToReplicas(_ lib.ValidatorSet, msg lib.Signable) {
	for to := range n.net.nodes {
		n.send(to, msg)
	}
}
func (n *zzNode) SendToProposer(msg lib.Signable) {
	for to, peer := range n.net.nodes {
		if bytes.Equal(peer.key.PublicKey().Bytes(), n.bft.ProposerKey) {
			n.send(to, msg)
		}
	}
}
func (n *zzNode) LoadRootChainId(uint64) uint64 { return lib.CanopyChainId }
func (n *zzNode) LoadIsOwnRoot() bool           { return false }
func (n *zzNode) Syncing() *atomic.Bool         { return &atomic.Bool{} }
func (n *zzNode) ResetFSM()                     {}
func (n *zzNode) SendCertificateResultsTx(*lib.QuorumCertificate) {}
func (n *zzNode) LoadCommittee(_, _ uint64) (lib.ValidatorSet, lib.ErrorI) { return n.net.valSet, nil } // committee-preserving root updates
func (n *zzNode) LoadCommitteeData() (*lib.CommitteeData, lib.ErrorI)   { return &lib.CommitteeData{}, nil }
func (n *zzNode) LoadLastProposers(uint64) (*lib.Proposers, lib.ErrorI) { return n.net.proposers, nil }
func (n *zzNode) LoadMinimumEvidenceHeight(_, _ uint64) (*uint64, lib.ErrorI) {
	h := uint64(0)
	return &h, nil
}
func (n *zzNode) IsValidDoubleSigner(_, _ uint64, _ []byte) bool { return true }
func (n *zzNode) LoadMaxBlockSize() int                          { return lib.GlobalMaxBlockSize }

func zzNewNet(t *testing.T, rootHeight uint64) *zzNet {
	vs, keys, proposers := newTestValSet(t, 4)
	net := &zzNet{valSet: vs, proposers: &proposers, log: t.Logf, byz: -1}
	cfg := lib.DefaultConfig()
	cfg.RunVDF = false
	for i, k := range keys {
		n := &zzNode{idx: i, net: net, key: k, rootHeight: rootHeight, done: make(chan struct{})}
		blk := &lib.Block{BlockHeader: &lib.BlockHeader{Height: 1, TransactionRoot: crypto.Hash([]byte(fmt.Sprintf("block built by node %d", i)))}}
		n.block, _ = lib.Marshal(blk)
		b, err := New(cfg, k, rootHeight, 1, n, false, nil, lib.NewNullLogger())
		if err != nil {
			t.Fatal(err)
		}
		b.ValidatorSet, b.CommitteeData = vs, &lib.CommitteeData{}
		n.bft = b
		net.nodes = append(net.nodes, n)
	}
	return net
}

// deliver everything queued (and whatever that triggers), applying the loss filter
func (net *zzNet) flush() {
	for len(net.queue) > 0 {
		e := net.queue[0]
		net.queue = net.queue[1:]
		to := net.nodes[e.to]
		if to.committed != nil || (net.drop != nil && net.drop(e.from, e.to, e.m)) {
			continue
		}
		if net.byz >= 0 && e.to == net.byz && e.m.Header == nil && e.m.Qc != nil && e.m.Qc.Header.Phase == ElectionVote {
			e.m.HighQc = nil // the Byzantine leader disregards the (higher) locks reported to it and re-proposes its own stale lock
		}
		_ = to.bft.HandleMessage(e.m) // invalid / stale messages are rejected by the real code
	}
}

// one full round, exactly the phase order of BFT.HandlePhase; returns the leader the nodes converged on
func (net *zzNet) round(t *testing.T) (leader int) {
	leader = -1
	interrupted := map[int]bool{}
	phases := []struct {
		p Phase
		f func(b *BFT)
	}{
		{Election, (*BFT).StartElectionPhase}, {ElectionVote, (*BFT).StartElectionVotePhase}, {Propose, (*BFT).StartProposePhase},
		{ProposeVote, (*BFT).StartProposeVotePhase}, {Precommit, (*BFT).StartPrecommitPhase}, {PrecommitVote, (*BFT).StartPrecommitVotePhase},
		{Commit, (*BFT).StartCommitPhase}, {CommitProcess, (*BFT).StartCommitProcessPhase},
	}
	for _, ph := range phases {
		for _, n := range net.nodes {
			if n.committed != nil || interrupted[n.idx] {
				continue
			}
			n.bft.Phase = ph.p
			ph.f(n.bft)
			if n.bft.Phase == RoundInterrupt {
				interrupted[n.idx] = true
			}
			if ph.p == ProposeVote && n.bft.ProposerKey != nil {
				for j, peer := range net.nodes {
					if bytes.Equal(peer.key.PublicKey().Bytes(), n.bft.ProposerKey) {
						leader = j
					}
				}
			}
			if ph.p == CommitProcess && !interrupted[n.idx] {
				<-n.done // StartCommitProcessPhase commits on a goroutine
			}
		}
		net.flush()
	}
	for _, n := range net.nodes { // ROUND-INTERRUPT timeout -> PACEMAKER
		if n.committed == nil {
			n.bft.Phase = Pacemaker
			n.bft.Pacemaker()
		}
	}
	net.flush()
	return
}

func (net *zzNet) status(tag string) {
	s := tag + ":"
	for _, n := range net.nodes {
		lock := "-"
		if n.bft.HighQC != nil {
			lock = fmt.Sprintf("%x@(rH%d,r%d)", n.bft.HighQC.BlockHash[:3], n.bft.HighQC.Header.RootHeight, n.bft.HighQC.Header.Round)
		}
		c := "-"
		if n.committed != nil {
			c = fmt.Sprintf("%x", n.committed[:3])
		}
		s += fmt.Sprintf("  n%d[rH%d r%d lock=%s commit=%s]", n.idx, n.bft.RootHeight, n.bft.Round, lock, c)
	}
	net.log("%s", s)
}

// Schedule (no Byzantine node at all; only message loss and one committee-preserving root update):
//  A. at root height a, round ra>=1, leader X gets +2/3 PROPOSE votes for block BX; its PRECOMMIT reaches only X -> only X locks (BX, a, ra)
//  -- root chain publishes a new height b>a: every node resets to round 0 and KEEPS ITS LOCK (NEW_COMMITTEE reset)
//  B. at (b, round 0) X is partitioned away; leader Y != X proposes BY; the three nodes lock (BY, b, 0); the COMMIT reaches only Y -> Y commits BY
//  C. at (b, round rc>=1) leader X re-proposes its lock BX justified by the certificate from (a, ra); the two nodes locked on BY unlock because ra > 0
func TestZZAgreementAcrossRootHeightReset(t *testing.T) {
	for a := uint64(1); a < 12; a++ {
		for b := a + 1; b < a+6; b++ {
			if zzTrySchedule(t, a, b) {
				return
			}
		}
	}
	t.Log("no (a,b) in the scanned range produced the required leader pattern")
}

func zzTrySchedule(t *testing.T, a, b uint64) bool {
	net := zzNewNet(t, a)
	// --- A: rounds at root height a with all PRECOMMIT messages from the leader lost, until some round ra>=1 yields a PROPOSE_VOTE certificate
	X, ra := -1, uint64(0)
	for r := uint64(0); r < 4 && X < 0; r++ {
		net.drop = func(from, to int, m *Message) bool {
			if r == 0 {
				return true // round 0 fails entirely (asynchrony)
			}
			return m.Header != nil && m.Header.Phase == Precommit && from != to // the PRECOMMIT is lost to everyone but its sender
		}
		leader := net.round(t)
		if false { net.status(fmt.Sprintf("A r=%d leader=%d", r, leader)) }
		if r >= 1 && leader >= 0 && net.nodes[leader].bft.HighQC != nil {
			X, ra = leader, r
		}
	}
	if X < 0 {
		return false
	}
	for i, n := range net.nodes {
		if i != X && n.bft.HighQC != nil {
			return false
		}
	}
	lockX := net.nodes[X].bft.HighQC
	// --- root-chain update: committee unchanged, root height a -> b
	for _, n := range net.nodes {
		n.rootHeight = b
		n.bft.NewHeight(true) // what BFT.Start() does on ResetBFT{IsRootChainUpdate:true}
	}
	// --- B: round 0 at root height b, X partitioned, COMMIT reaches only its sender
	net.drop = func(from, to int, m *Message) bool {
		if from == X || to == X {
			return true
		}
		return m.Header != nil && m.Header.Phase == Commit && from != to
	}
	Y := net.round(t)
	if false { net.status(fmt.Sprintf("B a=%d b=%d X=%d ra=%d Y=%d", a, b, X, ra, Y)) }
	if Y < 0 || Y == X || net.nodes[Y].committed == nil {
		return false
	}
	// --- C: network heals; rounds until X leads
	net.drop = nil
	net.byz = X
	for r := 0; r < 3; r++ {
		l := net.round(t)
		if false { net.status(fmt.Sprintf("C a=%d b=%d r=%d leader=%d", a, b, r, l)) }
		n := 0
		for _, nd := range net.nodes {
			if nd.committed != nil {
				n++
			}
		}
		if n == 4 {
			break
		}
	}
	first := net.nodes[Y].committed
	for _, nd := range net.nodes {
		if nd.committed != nil && !bytes.Equal(nd.committed, first) {
			net.status(fmt.Sprintf("a=%d b=%d X=%d ra=%d lockX=%x Y=%d", a, b, X, ra, lockX.BlockHash[:3], Y))
			t.Logf("AGREEMENT VIOLATED at height 1: node %d committed %x, node %d committed %x", Y, first[:4], nd.idx, nd.committed[:4])
			return true
		}
	}
	return false
}
