package fsm

// Stub-free replay of the C07 finding (solver: ZZ_C07_O1, obligation
// C07.O1.caches-agree-with-the-store-after-the-call) on the real FSM and the real store.
// A proposer builds its block with ApplyBlock(..., allowOversize=true): transactions beyond the size
// limit are executed on a throw-away layer and reported as Oversized. Before the fix their effects
// stayed in the account / pool caches, so the end-block logic of the block under construction (and
// the state root the proposer signs) included fees of transactions that are not in the block.

import (
	"context"
	"testing"

	"github.com/canopy-network/canopy/lib"
	"github.com/canopy-network/canopy/lib/crypto"
	"github.com/stretchr/testify/require"
)

func TestZZReplayC07OversizeLeavesNoTrace(t *testing.T) {
	sm := newTestStateMachine(t)
	kg := newTestKeyGroup(t)
	sender := crypto.NewAddress(kg.Address.Bytes())
	fee := DefaultParams().Fee.SendFee
	require.NoError(t, sm.AccountAdd(sender, 10*fee+100))
	mk := func(amount uint64, memo string) []byte {
		tx, err := NewSendTransaction(kg.PrivateKey, newTestAddress(t, 1), amount, uint64(sm.NetworkID), sm.Config.ChainId, fee, sm.Height(), memo)
		require.NoError(t, err)
		bz, err := lib.Marshal(tx)
		require.NoError(t, err)
		return bz
	}
	t1, t2 := mk(1, "a"), mk(2, "b")
	// a block limit that fits exactly the first transaction
	cons, err := sm.GetParamsCons()
	require.NoError(t, err)
	cons.BlockSize = lib.MaxBlockHeaderSize + uint64(len(t1))
	require.NoError(t, sm.SetParamsCons(cons))
	sm.ResetCaches()
	r := new(lib.ApplyBlockResults)
	require.NoError(t, sm.ApplyTransactions(context.Background(), [][]byte{t1, t2}, r, true))
	require.Len(t, r.Results, 1, "one transaction fits")
	require.Len(t, r.Oversized, 1, "the second one is oversize")
	// what the FSM sees through its caches right after the call (this is what EndBlock computes with)
	cachedPool, err := sm.GetPoolBalance(sm.Config.ChainId)
	require.NoError(t, err)
	cachedSender, err := sm.GetAccountBalance(sender)
	require.NoError(t, err)
	// what is really stored
	sm.ResetCaches()
	storedPool, err := sm.GetPoolBalance(sm.Config.ChainId)
	require.NoError(t, err)
	storedSender, err := sm.GetAccountBalance(sender)
	require.NoError(t, err)
	require.Equal(t, fee, storedPool, "only the included transaction paid a fee")
	require.Equal(t, storedPool, cachedPool, "fee pool seen by end-block logic contains the fee of a transaction that is not in the block")
	require.Equal(t, storedSender, cachedSender, "sender balance seen through the cache includes the oversize transaction")
}
