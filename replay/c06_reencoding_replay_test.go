package fsm

import (
	"testing"
	"time"

	"github.com/canopy-network/canopy/lib"
	"github.com/canopy-network/canopy/lib/crypto"
	"github.com/stretchr/testify/require"
)

// a validly signed send is included once; a re-encoding of the same signed content (explicit zero nonce field appended)
// has a different raw-byte hash and is executed again
func TestZZReplayByReencoding(t *testing.T) {
	kg, to := newTestKeyGroup(t), newTestAddress(t, 1)
	sendTx, e := NewSendTransaction(kg.PrivateKey, to, 10, 1, 1, 1, 1, "")
	require.NoError(t, e)
	sm := newTestStateMachine(t)
	s := sm.store.(lib.StoreI)
	require.NoError(t, sm.UpdateParam("fee", ParamSendFee, &lib.UInt64Wrapper{Value: 1}))
	require.NoError(t, sm.AccountAdd(kg.Address, 100))
	require.NoError(t, s.IndexBlock(&lib.BlockResult{BlockHeader: &lib.BlockHeader{Height: 1, Hash: crypto.Hash([]byte("block_hash")), Time: uint64(time.Now().UnixMicro())}}))
	raw1, err := lib.Marshal(sendTx)
	require.NoError(t, err)
	raw2 := append(append([]byte{}, raw1...), 0x50, 0x00) // field 10 (nonce), varint, value 0 == the default
	h1, h2 := crypto.HashString(raw1), crypto.HashString(raw2)
	// block k: the original
	r := new(lib.ApplyBlockResults)
	require.NoError(t, sm.ApplyTransactions(t.Context(), [][]byte{raw1}, r, false))
	require.Len(t, r.Failed, 0)
	require.NoError(t, s.IndexTx(r.Results[0]))
	bal1, _ := sm.GetAccountBalance(to)
	// identical bytes again: rejected (the mechanism that exists)
	r = new(lib.ApplyBlockResults)
	require.NoError(t, sm.ApplyTransactions(t.Context(), [][]byte{raw1}, r, false))
	t.Logf("identical bytes: failed=%d (hash %s..)", len(r.Failed), h1[:8])
	// the re-encoding: same signed content, different hash
	r = new(lib.ApplyBlockResults)
	require.NoError(t, sm.ApplyTransactions(t.Context(), [][]byte{raw2}, r, false))
	bal2, _ := sm.GetAccountBalance(to)
	t.Logf("re-encoded bytes: failed=%d included=%d (hash %s..); recipient balance %d -> %d", len(r.Failed), len(r.Results), h2[:8], bal1, bal2)
}
