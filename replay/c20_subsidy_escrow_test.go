package fsm

import (
	"testing"

	"github.com/canopy-network/canopy/lib"
	"github.com/stretchr/testify/require"
)

func TestZZSubsidyIntoEscrowPool(t *testing.T) {
	sm := newTestStateMachine(t)
	kg := newTestKeyGroup(t)
	require.NoError(t, sm.AccountAdd(kg.Address, 1_000_000_000_000_000))
	require.NoError(t, sm.AddToTotalSupply(1_000_000_000_000_000))
	vp, _ := sm.GetParamsVal()
	create := &MessageCreateOrder{ChainId: lib.CanopyChainId, AmountForSale: vp.MinimumOrderSize, RequestedAmount: 1, SellerReceiveAddress: kg.Address.Bytes(), SellersSendAddress: kg.Address.Bytes(), OrderId: []byte("order-id-0123456789a")[:20]}
	require.NoError(t, sm.HandleMessageCreateOrder(create))
	escrowId := lib.CanopyChainId + EscrowPoolAddend
	before, _ := sm.GetPoolBalance(escrowId)
	sub := &MessageSubsidy{Address: kg.Address.Bytes(), ChainId: escrowId, Amount: 7}
	t.Logf("stateless Check() of a subsidy aimed at pool id %d: %v", escrowId, sub.Check())
	if sub.Check() != nil {
		t.Logf("subsidy rejected by the stateless check (as CheckMessage would): not executed")
		return
	}
	require.NoError(t, sm.HandleMessageSubsidy(sub))
	after, _ := sm.GetPoolBalance(escrowId)
	book, _ := sm.GetOrderBook(lib.CanopyChainId)
	sum := uint64(0)
	for _, o := range book.Orders {
		sum += o.AmountForSale
	}
	t.Logf("escrow pool %d -> %d ; sum of open orders = %d", before, after, sum)
	if after != sum {
		t.Errorf("ZZ-VIOLATION: escrow pool %d != sum of open orders %d", after, sum)
	}
}
