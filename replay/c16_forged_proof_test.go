package store

// Stub-free replay of the C16 adversarial-proof finding (solver: ZZ_C16_M2b, obligation
// M2.present-key-never-proved-absent). A parent's value is Hash(leftKey|leftValue|rightKey|rightValue)
// without delimiters and VerifyProof did not check the size of the values in a proof, so a prover
// can move the boundary: the sibling's "value" swallows the real right child's key and the head of
// its hash, and two bytes from the middle of that hash are presented as the key of the proven node.
// Whenever those two bytes happen to be a well-formed node key on the right side of the root
// (about one root in nine), every present key on that side that does not extend it is "proved absent".

import (
	"fmt"
	"testing"

	"github.com/canopy-network/canopy/lib"
)

func TestZZReplayC16ForgedNonMembership(t *testing.T) {
	for attempt := 0; attempt < 200; attempt++ {
		ms, _ := NewStoreInMemory(lib.NewDefaultLogger())
		smt := NewDefaultSMT(ms)
		keys := [][]byte{}
		for i := 0; i < 40; i++ {
			keys = append(keys, []byte(fmt.Sprintf("key-%d-%d", attempt, i)))
		}
		ops := map[uint64]valueOp{}
		for i, k := range keys {
			ops[uint64(i)] = valueOp{key: k, value: []byte("v"), op: opSet}
		}
		if err := smt.Commit(ops); err != nil {
			t.Fatal(err)
		}
		root := smt.Root()
		left, err := smt.getNode(smt.root.LeftChildKey)
		if err != nil {
			t.Fatal(err)
		}
		right, err := smt.getNode(smt.root.RightChildKey)
		if err != nil {
			t.Fatal(err)
		}
		rv := right.Value
		for j := 0; j+2 <= len(rv); j++ {
			if rv[j] == 0 || rv[j+1] != 0 {
				continue
			}
			// forged two-node proof: [fake proven node, real left child with an over-long value]
			sibVal := append(append(append([]byte{}, left.Value...), smt.root.RightChildKey...), rv[:j]...)
			proof := []*lib.Node{
				{Key: []byte{rv[j], 0}, Value: append([]byte{}, rv[j+2:]...)},
				{Key: smt.root.LeftChildKey, Value: sibVal, Bitmask: LeftChild},
			}
			for _, b := range keys {
				ok, _ := smt.VerifyProof(b, nil, false, root, proof)
				if ok {
					// b is present: the honest membership proof verifies
					hp, _ := smt.GetMerkleProof(b)
					okM, _ := smt.VerifyProof(b, []byte("v"), true, root, hp)
					t.Fatalf("attempt %d: forged proof 'proves' that present key %q (membership verifies: %v) is absent", attempt, b, okM)
				}
			}
		}
	}
}
